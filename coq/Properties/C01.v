(* C01 - Media transparency of any chain of pass-through interceptors.
   Statements only; proofs are in Proofs/ChainProofs.v.

   Reading guide.  A writer is  packet -> state -> state * (n, errors); a wrapper maps an
   inner writer over ANY state type to a writer over (own state * inner state), so the only
   way it can act on the transport is by calling the inner writer.  [transparentL L] says:
   for EVERY inner writer, one call of [L inner] on an in-scope packet p performs exactly the
   inner calls p' :: inj, in this order, where p' is p up to the TWCC header extension and
   inj are packets the wrapper made itself; it returns the n and the errors of the call for
   p' (possibly joined with errors of the injected calls).  Readers likewise
   ([rtransparentL]).  The per-wrapper lemmas are about hand models of the 10-30 line Bind*
   closures (Model/Chain.v); the differential run (Check/C01Check.v, harness/cmd/c01) ties
   them to the Go code.  The composition theorems need nothing but these lemmas. *)
From IV Require Import Base.Word Model.TwccHdrExt Model.Chain Proofs.ChainProofs.
Open Scope Z_scope.

Section Write.
  Variable P : Type.
  Variable upto : P -> P -> Prop.
  Hypothesis upto_refl : forall p, upto p p.
  Hypothesis upto_trans : forall a b c, upto a b -> upto b c -> upto a c.
  Variable Pok : P -> Prop.

  (* closed under composition *)
  Theorem C01_transparent_compose : forall T1 T2 (L2 : layer P T2) (L1 : layer P T1),
    transparentL P upto Pok L2 -> transparentL P upto Pok L1 ->
    transparentL P upto Pok (compose P L2 L1).
  Proof. exact (transparent_compose P upto upto_trans Pok). Qed.

  (* EVERY list of transparent wrappers - any members, any order, any length - bound the way
     chain.go binds them (member 0 next to the transport) is transparent *)
  Theorem C01_chain_transparent : forall l : list (wrapper P),
    Forall (transparent P upto Pok) l ->
    transparentL P upto Pok (fun S inner => chain_bind l inner).
  Proof. exact (chain_transparent P upto upto_refl upto_trans Pok). Qed.

  (* chain.go's loop: binding l ++ [w] wraps w around the binding of l *)
  Theorem C01_chain_bind_is_left_fold : forall (l : list (wrapper P)) w S (inner : writer P S) p sts s,
    chain_bind (l ++ [w]) inner p (sts, s) =
    (let '((own', (sts', s')), r) := w _ (chain_bind l inner) p (hd ws0 sts, (List.tl sts, s)) in
     ((own' :: sts', s'), r)).
  Proof. exact (chain_bind_snoc P). Qed.

  (* exactly once, in order, never replaced or reordered: against a logging transport, after
     ANY sequence of application writes the transport has seen, per write and in order, that
     write's packet (up to TWCC) first and then only packets made by wrappers *)
  Theorem C01_transport_sees_each_write_once_in_order : forall (l : list (wrapper P)),
    Forall (transparent P upto Pok) l ->
    forall script ps sts log0, Forall Pok ps ->
    exists suffix,
      snd (fst (run_list (chain_bind l (log_writer P script)) ps (sts, log0))) = log0 ++ suffix /\
      log_of P upto Pok ps suffix.
  Proof.
    intros l Hl. apply (transport_log P upto Pok).
    exact (chain_transparent P upto upto_refl upto_trans Pok l Hl).
  Qed.

  (* a member injecting a packet of its own (retransmission) into its inner writer: the
     members below treat it transparently, the members above are not involved *)
  Theorem C01_injection_below_is_transparent : forall (l : list (wrapper P)) k,
    Forall (transparent P upto Pok) l ->
    forall S (inner : writer P S) sts s q, Pok q ->
    exists q' inj sts' extra, upto q q' /\ Pok q' /\ Forall Pok inj /\
      chain_inject l k inner q (sts, s) =
        ((firstn (Datatypes.S k) sts ++ sts', fst (run_list inner (q' :: inj) s)),
         (fst (hdres (snd (run_list inner (q' :: inj) s))),
          snd (hdres (snd (run_list inner (q' :: inj) s))) ++ extra)) /\
      incl extra (flat_map snd (tl (snd (run_list inner (q' :: inj) s)))).
  Proof. exact (inject_transparent P upto upto_refl upto_trans Pok). Qed.

  (* ---- one lemma per library wrapper (write side) ---- *)
  (* NoOp, and every Bind* that returns the writer unchanged: nack generator, report receiver,
     twcc sender, rfc8888, packetdump receiver, intervalpli, cc (pass-through estimator) *)
  Theorem C01_transparent_noop : transparent P upto Pok w_id.
  Proof. exact (transparent_id P upto upto_refl Pok). Qed.

  (* report sender, stats, packetdump sender, rtpfb: account, then forward *)
  Theorem C01_transparent_record : transparent P upto Pok w_record.
  Proof. exact (transparent_record P upto upto_refl Pok). Qed.

  (* nack responder; scope: NewPacket succeeds for in-scope packets of the stream
     (payload <= 1460 bytes) *)
  Theorem C01_transparent_responder : forall same_stream np_fail,
    (forall p, Pok p -> same_stream p = true -> np_fail p = false) ->
    forall bound, transparent P upto Pok (w_responder same_stream np_fail bound).
  Proof. exact (transparent_responder P upto upto_refl Pok). Qed.

  (* twcc header extension; scope: SetExtension succeeds on in-scope packets and yields the
     packet up to the TWCC extension (instantiated below with C15's theorems) *)
  Theorem C01_transparent_twcc_header_extension : forall set_tcc (sid_ok : Z -> Prop),
    (forall sid n p, sid_ok sid -> Pok p -> exists p', set_tcc sid n p = Some p' /\ upto p p' /\ Pok p') ->
    forall sid, sid = 0 \/ sid_ok sid -> transparent P upto Pok (w_twcc_ext set_tcc sid).
  Proof. exact (transparent_twcc_ext P upto upto_refl Pok). Qed.

  (* flexfec encoder, for every encoder whose repair packets are in scope: media packet
     first, repair packets after it, n of the media write, errors joined *)
  Theorem C01_transparent_flexfec : forall same_stream encode,
    (forall buf, Forall Pok (encode buf)) ->
    forall on num_media, transparent P upto Pok (w_flexfec same_stream encode on num_media).
  Proof. exact (transparent_flexfec P upto upto_refl Pok). Qed.
End Write.

Print Assumptions C01_transparent_compose.
Print Assumptions C01_chain_transparent.
Print Assumptions C01_chain_bind_is_left_fold.
Print Assumptions C01_transport_sees_each_write_once_in_order.
Print Assumptions C01_injection_below_is_transparent.
Print Assumptions C01_transparent_noop.
Print Assumptions C01_transparent_record.
Print Assumptions C01_transparent_responder.
Print Assumptions C01_transparent_twcc_header_extension.
Print Assumptions C01_transparent_flexfec.

Section Read.
  Variables (D H : Type) (parse : D -> option H) (tcc_ext : H -> option bool).

  Theorem C01_read_transparent_compose : forall T1 T2 ok2 ok1 (L2 : rlayer D H T2) (L1 : rlayer D H T1),
    rtransparentL D H parse tcc_ext ok2 L2 -> rtransparentL D H parse tcc_ext ok1 L1 ->
    rtransparentL D H parse tcc_ext (fun o => ok2 (fst o) /\ ok1 (snd o)) (rcompose D H L2 L1).
  Proof. exact (rtransparent_compose D H parse tcc_ext). Qed.

  (* every chain of transparent reader wrappers: inner reader called exactly once, (n, bytes)
     unchanged on success, attributes the same map (cache / keys may be added), errors
     returned, own states untouched on error, cache invariant preserved *)
  Theorem C01_read_chain_transparent : forall l : list (rwrapper D H),
    Forall (rtransparent D H parse tcc_ext) l ->
    rtransparentL D H parse tcc_ext (fun sts => length sts = length l) (fun S inner => rchain_bind l inner).
  Proof. exact (rchain_transparent D H parse tcc_ext). Qed.

  (* a packet whose read failed is not accounted: no member's state changes, for every chain *)
  Theorem C01_failed_read_not_accounted : forall (l : list (rwrapper D H)),
    Forall (rtransparent D H parse tcc_ext) l ->
    forall S (inner : reader D H S) a sts s, length sts = length l ->
      re D H (snd (inner a s)) <> [] ->
      fst (fst (rchain_bind l inner a (sts, s))) = sts /\
      re D H (snd (rchain_bind l inner a (sts, s))) = re D H (snd (inner a s)).
  Proof.
    intros l Hl S inner a sts s Hlen He.
    destruct (rchain_transparent D H parse tcc_ext l Hl S inner a sts s Hlen) as (_ & _ & _ & H4 & _).
    exact (H4 He).
  Qed.

  (* the parse cache handed to the application describes the bytes actually returned
     (b[:n]) whenever the transport's own attributes did - for every chain, every packet
     (well-formed or not), success or failure *)
  Theorem C01_attr_cache_describes_bytes : forall (l : list (rwrapper D H)),
    Forall (rtransparent D H parse tcc_ext) l ->
    forall S (inner : reader D H S) a sts s, length sts = length l ->
      let r := snd (inner a s) in
      let R := snd (rchain_bind l inner a (sts, s)) in
      rd D H R = rd D H r /\
      (cache_ok D H parse (ra D H r) (rd D H r) -> cache_ok D H parse (ra D H R) (rd D H R)).
  Proof.
    intros l Hl S inner a sts s Hlen. cbv zeta.
    destruct (rchain_transparent D H parse tcc_ext l Hl S inner a sts s Hlen) as (_ & H2 & H3 & _).
    split; [exact H2|]. rewrite H2. exact H3.
  Qed.

  (* ---- one lemma per library wrapper (read side) ---- *)
  Theorem C01_rtransparent_noop : rtransparent D H parse tcc_ext r_id.
  Proof. exact (rtransparent_id D H parse tcc_ext). Qed.
  (* nack generator, report receiver (RTP and RTCP), rfc8888, packetdump receiver (RTP [after
     fix F24]), nack responder (RTCP), cc (RTCP); the packetdump receiver's RTCP side parses a
     private copy and leaves the cache alone: C01b_rtransparent_parse_nocache *)
  Theorem C01_rtransparent_parse_record : forall keep, rtransparent D H parse tcc_ext (r_parse_record parse keep).
  Proof. exact (rtransparent_parse_record D H parse tcc_ext). Qed.
  Theorem C01_rtransparent_twcc_sender : forall sid, rtransparent D H parse tcc_ext (r_twcc_sender parse tcc_ext sid).
  Proof. exact (rtransparent_twcc_sender D H parse tcc_ext). Qed.
  Theorem C01_rtransparent_stats : rtransparent D H parse tcc_ext (r_stats parse).
  Proof. exact (rtransparent_stats D H parse tcc_ext). Qed.
  Theorem C01_rtransparent_stats_rtcp : rtransparent D H parse tcc_ext (r_stats_rtcp parse).
  Proof. exact (rtransparent_stats_rtcp D H parse tcc_ext). Qed.
  Theorem C01_rtransparent_rtpfb : forall has_report, rtransparent D H parse tcc_ext (r_rtpfb parse has_report).
  Proof. exact (rtransparent_rtpfb D H parse tcc_ext). Qed.
End Read.

Print Assumptions C01_read_transparent_compose.
Print Assumptions C01_read_chain_transparent.
Print Assumptions C01_failed_read_not_accounted.
Print Assumptions C01_attr_cache_describes_bytes.
Print Assumptions C01_rtransparent_noop.
Print Assumptions C01_rtransparent_parse_record.
Print Assumptions C01_rtransparent_twcc_sender.
Print Assumptions C01_rtransparent_stats.
Print Assumptions C01_rtransparent_stats_rtcp.
Print Assumptions C01_rtransparent_rtpfb.

(* ---- Close / Unbind ---- *)

(* every member is closed exactly once (and nothing else about it changes), whatever the
   members return *)
Theorem C01_close_unbind_once : forall l i m, nth_error l i = Some m ->
  exists m', nth_error (fst (chain_close l)) i = Some m' /\ m_closed m' = m_closed m + 1 /\
             m_unbound_local m' = m_unbound_local m /\ m_unbound_remote m' = m_unbound_remote m.
Proof.
  intros l i m Hm. destruct (close_all_once l i m Hm) as (m' & H1 & H2 & H3 & H4 & _).
  exists m'. unfold chain_close. destruct (close_all l) as [l' es]. cbn in *. auto.
Qed.
Print Assumptions C01_close_unbind_once.

Theorem C01_unbind_once : forall l i m, nth_error l i = Some m ->
  (exists m', nth_error (chain_unbind_local l) i = Some m' /\ m_unbound_local m' = m_unbound_local m + 1 /\
              m_closed m' = m_closed m /\ m_unbound_remote m' = m_unbound_remote m) /\
  (exists m', nth_error (chain_unbind_remote l) i = Some m' /\ m_unbound_remote m' = m_unbound_remote m + 1 /\
              m_closed m' = m_closed m /\ m_unbound_local m' = m_unbound_local m).
Proof.
  intros l i m Hm. split; eexists; (split; [unfold chain_unbind_local, chain_unbind_remote; rewrite nth_error_map, Hm; reflexivity|cbn; auto]).
Qed.
Print Assumptions C01_unbind_once.

(* all Close errors are preserved: the chain's error is nil iff every member returned nil,
   and errors.Is finds a sentinel in it iff errors.Is finds it in some member's error
   (members may themselves be chains: errors are trees) *)
Theorem C01_close_errors_preserved : forall l,
  (snd (chain_close l) = None <-> Forall (fun m => m_close_err m = None) l) /\
  (forall t, (exists e, snd (chain_close l) = Some e /\ err_is e t = true) <->
             (exists m e, In m l /\ m_close_err m = Some e /\ err_is e t = true)).
Proof.
  intros l. assert (Hes : snd (close_all l) = map m_close_err l).
  { induction l as [|m l IH]; [reflexivity|]. cbn. destruct (close_all l) as [l' es]. cbn in *. congruence. }
  unfold chain_close. destruct (close_all l) as [l' es] eqn:E. cbn [snd] in *. subst es. split.
  - rewrite flatten_errs_none. rewrite Forall_map. tauto.
  - intros t. rewrite flatten_errs_is. split.
    + intros (e & Hin & Ht). apply in_map_iff in Hin as (m & Hm & Hin). eauto.
    + intros (m & e & Hin & Hm & Ht). exists e. split; [|exact Ht]. apply in_map_iff. eauto.
Qed.
Print Assumptions C01_close_errors_preserved.

(* ---- the library members, concretely ----
   The hypotheses of the per-wrapper lemmas are discharged for the packet type used in the
   differential run (TWCC via C15's SetExtension model): EVERY list of library members
   (kind codes of Check/C01Check.v, any order, any length, any options) bound as a chain is
   transparent for in-scope packets (RFC 8285 profile or no extension, stream packets
   <= 1460 bytes and, in the legacy padding form, a count within the payload; TWCC id 0 or
   1..14). *)
From IV Require Import Proofs.TwccHdrExtProofs Check.C01Check Proofs.ChainInstanceProofs.

Theorem C01_library_chain_transparent : forall (c : cfg) (ms : list member_desc),
  c_sid c = 0 \/ 1 <= c_sid c <= 14 ->
  transparentL pkt (upto_tcc (c_sid c)) (Pok_c c) (fun S inner => chain_bind (map (wr_of c) ms) inner).
Proof. exact library_chain_transparent. Qed.
Print Assumptions C01_library_chain_transparent.

(* RTP and RTCP read side: no scope condition on the configuration *)
Theorem C01_library_read_chains_transparent : forall (c : cfg) (ms : list member_desc),
  rtransparentL (option hdr) hdr rparse (tcc_ext c) (fun sts => length sts = length ms)
    (fun S inner => rchain_bind (map (rd_of c) ms) inner) /\
  rtransparentL (option hdr) hdr rparse (tcc_ext c) (fun sts => length sts = length ms)
    (fun S inner => rchain_bind (map crd_of ms) inner).
Proof. exact library_read_chain_transparent. Qed.
Print Assumptions C01_library_read_chains_transparent.

(* non-vacuity: the scope contains packets with CSRC list, one-byte extension and padding *)
Example C01_scope_inhabited :
  Pok_c (5000, 5, true, true, 888888, 118)
        (mkH [2; 1; 1; 96; 7; 9; 5000; 4; 11; 12] true PROFILE_ONE [(3, [1; 2])], (1, 1460)).
Proof. split; [right; left; reflexivity|intros _; split; [cbn; lia|reflexivity]]. Qed.
Print Assumptions C01_scope_inhabited.

(* outside the scope the header-extension member does refuse packets (stated, not hidden):
   id 15 on a one-byte-profile header *)
Example C01_twcc_out_of_scope_refuses :
  set_tcc 15 0 (mkH [2; 0; 0; 96; 7; 9; 5000; 0] true PROFILE_ONE [(3, [1; 2])], (1, 10)) = None.
Proof. reflexivity. Qed.
Print Assumptions C01_twcc_out_of_scope_refuses.
