(* C08, deepening round - statements only.  Proofs: Proofs/AtoFloatProofs.v (float
   kernel of getArrivalTimeOffset, PrimFloat <-> Flocq <-> R), Proofs/Rfc8888More.v
   (no code 7 without older-than-first arrivals; the model depends on the kernel only
   through getArrivalTimeOffset), Proofs/Rfc8888Unreceive.v (output-level
   "never reported lost after reported received").

   Round 1 (Properties/C08.v) left two named gaps in C08_model_meets_spec_partial:
   (i) oracle code "0 or 7", (ii) exactness of the float kernel as a hypothesis.
   Both are closed here: the main theorem is about the EXECUTABLE model
   (primitive-float kernel [ato_kernel], the one compared with the Go code on every
   run), its conclusion is code 0, and its hypotheses are booleans on the history. *)
From IV Require Import Base.Word Model.Unwrapper Model.StreamLog Model.Rfc8888Recorder
  Spec.Rfc8888Spec Proofs.StreamLogProofs Proofs.Rfc8888Proofs Proofs.Rfc8888SpecProofs
  Proofs.AtoFloatProofs Proofs.Rfc8888More Proofs.Rfc8888Unreceive.

(* MAIN THEOREM, full strength.  For every history of AddPacket / BuildReport /
   raw-budget builds over any number of SSRCs (any maximum sizes, any placement of the
   builds, loss, reordering, duplicates, wrap-around) such that
     - it is well-formed (uint16 sequence numbers, 2-bit ECN, budgets >= 0),
     - every clock value lies in [-2^62, 2^62) ns  (so that report time - arrival time
       fits a Go time.Duration; time.Unix(0, ns) of the years 1823..2116),
     - no packet OLDER than the first packet seen of its stream arrives
       (no_older_than_first: recount with the unwrapper only; the excluded shape is the
       known finding, C08_older_than_first_refuted),
   the reports of the executable model (float kernel on primitive floats) pass the whole
   specification oracle: code 0. *)
Theorem C08_model_meets_spec : forall ops,
  Forall wf_op ops -> clocks_in_range ops = true -> no_older_than_first ops = true ->
  spec_walk [] ops (model_outs ato_kernel [] ops) = 0%nat.
Proof. exact float_model_meets_spec_full. Qed.
Print Assumptions C08_model_meets_spec.

(* without the third hypothesis: code 0 or 7 (round-1 theorem with the exact-kernel
   hypothesis discharged for the executable kernel) *)
Theorem C08_float_model_meets_spec_0_or_7 : forall ops,
  Forall wf_op ops -> clocks_in_range ops = true ->
  let c := spec_walk [] ops (model_outs ato_kernel [] ops) in c = 0%nat \/ c = 7%nat.
Proof. exact float_model_meets_spec. Qed.
Print Assumptions C08_float_model_meets_spec_0_or_7.

(* for every exact kernel no bound on the clocks is needed *)
Theorem C08_model_meets_spec_exact_kernel : forall atok, exact_kernel atok -> forall ops,
  Forall wf_op ops -> no_older_than_first ops = true ->
  spec_walk [] ops (model_outs atok [] ops) = 0%nat.
Proof. exact model_meets_spec_full. Qed.
Print Assumptions C08_model_meets_spec_exact_kernel.

(* the oracle itself: on a history without older-than-first arrivals code 7 is never
   returned, WHATEVER the reports are (so on such a history the implementation's reports
   are never excused by the known finding) *)
Theorem C08_no_older_no_code7 : forall ops outs,
  no_older_than_first ops = true -> spec_walk [] ops outs <> 7%nat.
Proof. intros ops outs H. exact (no_older_no_code7 ops [] [] outs (Forall2_nil _) H). Qed.
Print Assumptions C08_no_older_no_code7.

(* non-vacuity of the three hypotheses together: two streams, wrap-around 65534 -> 1, a
   late (reordered) packet 65535 that is NOT older than the first, a duplicate, loss, a
   report time before an arrival, an offset above 8 s, a small maximum size, a raw budget.
   And the hypothesis really excludes the refuted shape (100 then 99). *)
Example C08b_nonvacuous :
  let ops := [Add 1700000000000001000 7 65534 0; Add 1700000000000002000 7 1 1;
              Add 1700000000000002500 9 5 0; Add 1700000000000003000 7 65535 2;
              Add 1700000000000003500 7 1 3; Build 1700000000005000000 1200;
              Add 1700000000006000000 7 4 0; Build 1700000000005999999 1200;
              Build 1700000009000000000 28; Add (-5) 9 7 0; BuildRaw 1700000009000000001 3] in
  Forall wf_op ops /\ clocks_in_range ops = true /\ no_older_than_first ops = true /\
  spec_walk [] ops (model_outs ato_kernel [] ops) = 0%nat /\
  no_older_than_first [Add 0 1 100 0; Add 1000000 1 99 0; Build 2000000 1200] = false.
Proof.
  cbv zeta. split; [repeat constructor; cbv; congruence|]. repeat split; vm_compute; reflexivity.
Qed.
Print Assumptions C08b_nonvacuous.

(* FLOAT KERNEL.  ato_kernel d evaluates, on binary64 with round-to-nearest-even,
     secs := float64(d / 1e9) + float64(d % 1e9) / 1e9 ; a := secs * 1024.0 ;
     (a > 0x1FFD, trunc a).
   For EVERY duration of the time.Duration range the comparison is exact ... *)
Theorem C08_ato_kernel_compare_exact : forall d, 0 <= d < 9223372036854775808 ->
  fst (ato_kernel d) = (1024 * d >? 8189 * 1000000000).
Proof. exact ato_kernel_over. Qed.
Print Assumptions C08_ato_kernel_compare_exact.

(* ... and below 8 s (a superset of the durations for which the comparison is false,
   d <= 7 997 070 312 ns) the truncation is the exact floor of 1024 d / 10^9 *)
Theorem C08_ato_kernel_floor_exact : forall d, 0 <= d < 8000000000 ->
  snd (ato_kernel d) = (1024 * d) / 1000000000.
Proof. exact ato_kernel_floor. Qed.
Print Assumptions C08_ato_kernel_floor_exact.

(* hence getArrivalTimeOffset with the float kernel is the specified offset
   floor(1024 * (now - arrival) s) with 0x1FFE / 0x1FFF, for every clock pair whose
   difference fits a time.Duration *)
Theorem C08_ato_float : forall now arrival, now - arrival < 9223372036854775808 ->
  ato ato_kernel now arrival =
    if now <? arrival then 8191
    else if 1024 * (now - arrival) >? 8189 * 1000000000 then 8190
    else (1024 * (now - arrival)) / 1000000000.
Proof. exact ato_float_exact. Qed.
Print Assumptions C08_ato_float.

(* the round-1 hypothesis "exact for every d >= 0" is literally false for the float
   kernel (d = 10^17 - 1 ns: the truncated value, which getArrivalTimeOffset ignores
   there, is off by one), which is why the statements above are about the comparison,
   the range below 8 s and [ato] *)
Theorem C08_exact_kernel_hypothesis_refuted_for_float : ~ exact_kernel ato_kernel.
Proof. exact ato_kernel_not_exact_everywhere. Qed.
Print Assumptions C08_exact_kernel_hypothesis_refuted_for_float.

(* the executable model and the exact-kernel model produce the same reports *)
Theorem C08_float_model_eq_exact_model : forall ops, clocks_in_range ops = true ->
  model_outs ato_kernel [] ops = model_outs exact_atok [] ops.
Proof. exact float_model_eq_exact_model. Qed.
Print Assumptions C08_float_model_eq_exact_model.

(* OUTPUT LEVEL: "a packet once reported received is never later reported lost", over the
   reports of a whole history.  What a report says about packet (ssrc, k) - k the unwrapped
   number - is decoded from the report and the pure recount of the arrival history
   (Proofs/Rfc8888Unreceive.v: a block of n metric blocks ends at the highest number that
   arrived in its stream; [statuses] gives one list of (ssrc, k, received?) per report):
     never_unreceive sts := forall i < j, (ssrc, k, true) in report i -> (ssrc, k, false) not in report j.
   It holds for ANY reports the specification oracle accepts (code 0, or the known 7): *)
Theorem C08_accepted_reports_never_unreceive : forall ops outs, Forall wf_op ops ->
  (spec_walk [] ops outs = 0%nat \/ spec_walk [] ops outs = 7%nat) ->
  never_unreceive (statuses [] ops outs).
Proof. exact accepted_never_unreceive. Qed.
Print Assumptions C08_accepted_reports_never_unreceive.

(* in particular the reports of the executable model, and of the model with any exact kernel *)
Theorem C08_never_unreceive_reports : forall ops, Forall wf_op ops -> clocks_in_range ops = true ->
  never_unreceive (statuses [] ops (model_outs ato_kernel [] ops)).
Proof. exact float_model_never_unreceive. Qed.
Print Assumptions C08_never_unreceive_reports.

Theorem C08_never_unreceive_reports_exact_kernel : forall atok, exact_kernel atok ->
  forall ops, Forall wf_op ops -> never_unreceive (statuses [] ops (model_outs atok [] ops)).
Proof. exact model_never_unreceive. Qed.
Print Assumptions C08_never_unreceive_reports_exact_kernel.

(* non-vacuity: 100 and 102 arrive, the first report says 100 R, 101 lost, 102 R and
   acknowledges 100; 103 arrives; the second report covers 101..103 and says 102 R again.
   Reports that said "102 lost" there are rejected by the oracle (code 3) and violate
   never_unreceive. *)
Example C08_never_unreceive_nonvacuous :
  let ops := [Add 1000 1 100 0; Add 2000 1 102 0; Build 3000 1200; Add 4000 1 103 0; Build 5000 1200] in
  statuses [] ops (model_outs ato_kernel [] ops) =
    [[(1, 100, true); (1, 101, false); (1, 102, true)];
     [(1, 101, false); (1, 102, true); (1, 103, true)]] /\
  let bad := [(28, [(1, 100, [262144; 0; 262144])]); (28, [(1, 101, [0; 0; 262144])])] in
  spec_walk [] ops bad = 3%nat /\ ~ never_unreceive (statuses [] ops bad).
Proof.
  cbv zeta. split; [vm_compute; reflexivity|]. split; [vm_compute; reflexivity|].
  intros H. apply (H 0%nat 1%nat 1 102 ltac:(auto)); vm_compute; auto.
Qed.
Print Assumptions C08_never_unreceive_nonvacuous.

(* THE SIZE LIMIT OF THE ORACLE.  The oracle excuses a missing first-time arrival when the
   block holds at least fair_share maxSize k entries ("pushed out by the size limit").
   Independent of its formula, fair_share is the LARGEST even count p <= 16384 for which
   k blocks of p entries fit the maximum size; any larger even count does not fit. *)
Theorem C08_fair_share_is_the_size_limit : forall maxSize k, 0 < k -> 12 + 8 * k <= maxSize ->
  let p := fair_share maxSize k in
  0 <= p <= 16384 /\ p mod 2 = 0 /\ 12 + k * (8 + 2 * p) <= maxSize /\
  (forall p', p' mod 2 = 0 -> p < p' <= 16384 -> maxSize < 12 + k * (8 + 2 * p')).
Proof. exact fair_share_maximal. Qed.
Print Assumptions C08_fair_share_is_the_size_limit.

(* OUTPUT LEVEL, "marked received exactly if it arrived".  [snapshots [] ops outs] pairs the
   statuses of report i with os_i, the pure recount of the arrivals that precede report i
   ([arrived os_i ssrc k]: a copy of packet k of stream ssrc is among them).  For ANY accepted
   reports: an entry about (ssrc, k) in report i says "received" exactly if the packet arrived
   before report i; and what has arrived stays arrived (any reports).  These two give
   never-unreceive and "never reported lost after it arrived". *)
Theorem C08_accepted_reports_received_iff_arrived : forall ops outs, Forall wf_op ops ->
  (spec_walk [] ops outs = 0%nat \/ spec_walk [] ops outs = 7%nat) ->
  forall i os_i st_i, nth_error (snapshots [] ops outs) i = Some (os_i, st_i) ->
  forall ssrc k b, In (ssrc, k, b) st_i -> (b = true <-> arrived os_i ssrc k).
Proof. exact accepted_received_iff_arrived. Qed.
Print Assumptions C08_accepted_reports_received_iff_arrived.

Theorem C08_arrived_monotone : forall ops outs, Forall wf_op ops ->
  forall i j os_i st_i os_j st_j, (i <= j)%nat ->
  nth_error (snapshots [] ops outs) i = Some (os_i, st_i) ->
  nth_error (snapshots [] ops outs) j = Some (os_j, st_j) ->
  forall ssrc k, arrived os_i ssrc k -> arrived os_j ssrc k.
Proof. exact arrived_monotone_from_start. Qed.
Print Assumptions C08_arrived_monotone.

(* the statuses are the second components of the snapshots *)
Theorem C08_statuses_snapshots : forall ops outs,
  statuses [] ops outs = map snd (snapshots [] ops outs).
Proof. intros ops outs. exact (statuses_snapshots ops [] outs). Qed.
Print Assumptions C08_statuses_snapshots.

Example C08_received_iff_arrived_nonvacuous :
  let ops := [Add 1000 1 100 0; Add 2000 1 102 0; Build 3000 1200; Add 4000 1 103 0; Build 5000 1200] in
  exists os1 st1, nth_error (snapshots [] ops (model_outs ato_kernel [] ops)) 1 = Some (os1, st1) /\
    In (1, 102, true) st1 /\ arrived os1 1 102 /\ In (1, 101, false) st1 /\ ~ arrived os1 1 101.
Proof.
  cbv zeta. eexists. eexists. split; [vm_compute; reflexivity|].
  split; [cbn; auto|]. split.
  - eexists. split; [left; reflexivity|]. vm_compute. discriminate.
  - split; [cbn; auto|]. intros (o & [Hin|[]] & Hk). inversion Hin; subst. apply Hk. vm_compute. reflexivity.
Qed.
Print Assumptions C08_received_iff_arrived_nonvacuous.
