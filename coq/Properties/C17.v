(* C17 - Pacers deliver each accepted packet once, in order, intact, within the rate. *)
From IV Require Import Base.Word Model.PacerQueue Proofs.PacerProofs.

(* Token-bucket pacing interceptor: for EVERY interleaving of writers' Write calls, the loop's
   channel receives, timer ticks (any times), rate changes and Close: the packets handed to the
   next writer, followed by those still queued (loop-local queue, then channel), are exactly the
   accepted packets in acceptance order, with the content they had when accepted.
   Hence: delivered is a prefix of accepted - nothing duplicated, reordered, altered or invented. *)
Theorem C17_pacing_fifo_exactly_once : forall rate burst t0 ops,
  let s := prun (pinit rate burst t0) ops in
  ps_delivered s ++ ps_local s ++ ps_chan s = ps_accepted s.
Proof. exact pacing_fifo. Qed.
Print Assumptions C17_pacing_fifo_exactly_once.

(* Leaky-bucket pacer: same statement for every interleaving of Write, AddStream, timer ticks and
   the two halves of a loop iteration (pop under the lock; write after releasing it), including
   packets whose SSRC has no writer (they are taken off the queue and dropped, flagged false) *)
Theorem C17_leaky_fifo_exactly_once : forall known ops,
  let s := lrun (linit known) ops in
  map fst (ls_done s) ++ opt_list (ls_inflight s) ++ ls_queue s = ls_accepted s.
Proof. exact leaky_fifo. Qed.
Print Assumptions C17_leaky_fifo_exactly_once.

(* if every packet is written on a stream that was added before (the interceptor's usage), nothing is dropped *)
Theorem C17_leaky_delivered_prefix : forall known ops, ops_ok known ops ->
  let s := lrun (linit known) ops in
  ls_delivered s ++ opt_list (ls_inflight s) ++ ls_queue s = ls_accepted s.
Proof. exact leaky_delivered_fifo. Qed.
Print Assumptions C17_leaky_delivered_prefix.

(* Envelope, whole interceptor, any interleaving and any rate changes: the bits released (scaled by
   10^9) never exceed the initial burst plus what the limiter earned, where each limiter event at
   time t earns rate * (t - last) *)
Theorem C17_envelope : forall rate burst t0 ops, 0 <= rate -> 0 <= burst -> rates_ok ops ->
  let s := prun (pinit rate burst t0) ops in
  ps_bits s * NS <= burst * NS + earned_total (pinit rate burst t0) ops.
Proof. exact pacing_envelope. Qed.
Print Assumptions C17_envelope.

(* Envelope in closed form for the token bucket at constant rate with events at non-decreasing
   times: bits granted by time t <= burst + rate * elapsed (tokens are non-negative). *)
Theorem C17_envelope_constant_rate : forall b evs, tb_ok b -> times_mono (tb_last b) evs ->
  let '(b', bits') := tb_events b evs 0 in
  bits' * NS + tb_tokens b' <= tb_tokens b + tb_rate b * (tb_last b' - tb_last b) /\ 0 <= tb_tokens b'.
Proof.
  intros b evs Hok Hm. pose proof (tb_events_envelope b evs 0 Hok Hm) as H.
  destruct (tb_events b evs 0) as [b' bits']. destruct H as ((_ & _ & Ht) & _ & _ & Hle). split; [|exact Ht].
  rewrite Z.mul_0_l, Z.add_0_l in Hle. exact Hle.
Qed.
Print Assumptions C17_envelope_constant_rate.

(* non-vacuity *)
Example C17_envelope_nonvacuous : tb_ok (mkTB 1000000 12000 (12000 * NS) 0) /\
  times_mono 0 [(5000000, 8000); (10000000, 9000)].
Proof. unfold tb_ok, NS; simpl. repeat split; try discriminate. Qed.
Print Assumptions C17_envelope_nonvacuous.

(* Known finding (head-of-line blocking): a packet with 8*len >= burst is never released, whatever
   time passes - the strict comparison Budget > 8*len can never hold because Budget <= burst *)
Theorem C17_oversize_head_blocks_refuted : forall fuel now p q b del bits,
  tb_ok b -> tb_burst b <= 8 * plen p ->
  release fuel now (p :: q) b del bits = (p :: q, b, del, bits).
Proof.
  intros fuel now p q b del bits Hok Hbig. destruct fuel as [|f]; cbn [release]; [reflexivity|].
  assert (E : (8 * plen p * NS <? tb_budget b now) = false).
  { unfold tb_budget, tb_advance, NS in *. cbv zeta. apply Z.ltb_ge. apply Z.le_trans with (tb_burst b * 1000000000).
    - apply Z.le_min_l.
    - apply Z.mul_le_mono_nonneg_r; [discriminate|exact Hbig]. }
  rewrite E. reflexivity.
Qed.
Print Assumptions C17_oversize_head_blocks_refuted.
