(* C17, round-4 strengthening - "handed to its stream's next writer EXACTLY ONCE" when the next writer RETURNS AN
   ERROR.  Model/PacerFail.v: both pacers with the outcome of every next-writer call chosen by the environment
   (ESend n ok / GTick now outs) and the reaction to an error a policy: MoveOn is the code as it is (the packet has
   left the queue before the call; the error is logged), RetryHead the alternative design "put the packet back at the
   head of the queue and try again with the next pacing interval".  Statements only; proofs in
   Proofs/PacerFailProofs.v. *)
From IV Require Import Base.Word Model.PacerQueue Model.PacerFail Model.PacerDebit Proofs.PacerProofs Proofs.PacerFailProofs Proofs.PacerDebitProofs.

(* ---------------- leaky bucket ---------------- *)

(* Every interleaving of Writes, AddStreams, ticks, pops and next-writer calls that return whatever they like (any n,
   error or not): each accepted packet leaves the queue exactly once, in acceptance order. *)
Theorem C17d_leaky_exactly_once_whatever_next_writer_returns : forall known ops,
  let s := erun MoveOn (einit known) ops in
  map fst (es_done s) ++ opt_list (es_inflight s) ++ es_queue s = es_accepted s.
Proof. exact leaky_fail_fifo. Qed.
Print Assumptions C17d_leaky_exactly_once_whatever_next_writer_returns.

(* ... and with streams added before use it is the CALLS RECEIVED BY THE NEXT WRITERS (the failed ones included) that
   form the accepted sequence: handed over once, never again after an error, nothing skipped after an error *)
Theorem C17d_leaky_calls_are_accepted_sequence : forall known ops, eops_known known ops ->
  let s := erun MoveOn (einit known) ops in
  map fst (es_calls s) ++ opt_list (es_inflight s) ++ es_queue s = es_accepted s.
Proof. exact leaky_fail_calls_fifo. Qed.
Print Assumptions C17d_leaky_calls_are_accepted_sequence.

Example C17d_leaky_calls_nonvacuous :
  eops_known [0; 1] [EWrite ea; EWrite eb; ETickStart 1; EPop; ESend 0 false; EPop; ESend 112 true].
Proof. cbn. repeat split; reflexivity. Qed.
Print Assumptions C17d_leaky_calls_nonvacuous.

(* no second call with the same packet: if the accepted packets are pairwise different values, so are the calls *)
Theorem C17d_leaky_no_second_call : forall known ops, eops_known known ops ->
  let s := erun MoveOn (einit known) ops in
  NoDup (es_accepted s) -> NoDup (map fst (es_calls s)).
Proof. exact leaky_fail_no_second_call. Qed.
Print Assumptions C17d_leaky_no_second_call.

(* what the next writers return has no influence: histories that differ only in the results of the next-writer calls
   (error or not) hand over the same packets in the same order and leave the same queue, packet in flight and budget *)
Theorem C17d_leaky_next_writer_result_irrelevant : forall known ops1 ops2, map eop_lop ops1 = map eop_lop ops2 ->
  let s1 := erun MoveOn (einit known) ops1 in
  let s2 := erun MoveOn (einit known) ops2 in
  map fst (es_done s1) = map fst (es_done s2) /\ map fst (es_calls s1) = map fst (es_calls s2) /\
  es_queue s1 = es_queue s2 /\ es_inflight s1 = es_inflight s2 /\ es_budget s1 = es_budget s2 /\
  es_accepted s1 = es_accepted s2.
Proof. exact leaky_fail_outcome_irrelevant. Qed.
Print Assumptions C17d_leaky_next_writer_result_irrelevant.

Example C17d_leaky_result_irrelevant_nonvacuous :
  map eop_lop [EWrite ea; ETickStart 1; EPop; ESend 0 false] = map eop_lop [EWrite ea; ETickStart 1; EPop; ESend 0 true].
Proof. reflexivity. Qed.
Print Assumptions C17d_leaky_result_irrelevant_nonvacuous.

(* the LTS with failing next writers projects onto the first-round LTS (PacerQueue.lst): the C17_ theorems about lst
   speak about it *)
Theorem C17d_leaky_embeds : forall known ops,
  eproj (erun MoveOn (einit known) ops) = lrun (linit known) (map eop_lop ops).
Proof. exact leaky_fail_embeds. Qed.
Print Assumptions C17d_leaky_embeds.

(* The alternative design breaks the property.  One failed call, then a healthy writer: the packet reaches the next
   writer twice ... *)
Theorem C17d_requeue_on_error_duplicates_refuted :
  let s := erun RetryHead (einit [0; 1])
             [EWrite ea; EWrite eb; ETickStart 1; EPop; ESend 0 false; ETickStart 1; EPop; ESend 112 true;
              ETickStart 1; EPop; ESend 112 true] in
  es_accepted s = [ea; eb] /\ es_calls s = [(ea, HErr); (ea, HOk); (eb, HOk)] /\ es_queue s = [] /\ es_inflight s = None.
Proof. exact retry_duplicates. Qed.
Print Assumptions C17d_requeue_on_error_duplicates_refuted.

(* ... where the code hands each packet over once on the very same history *)
Theorem C17d_code_same_history_once :
  let s := erun MoveOn (einit [0; 1])
             [EWrite ea; EWrite eb; ETickStart 1; EPop; ESend 0 false; ETickStart 1; EPop; ESend 112 true;
              ETickStart 1; EPop; ESend 112 true] in
  es_accepted s = [ea; eb] /\ es_calls s = [(ea, HErr); (eb, HOk)] /\ es_queue s = [] /\ es_inflight s = None.
Proof. exact moveon_same_history. Qed.
Print Assumptions C17d_code_same_history_once.

(* ... and a stream whose next writer keeps failing blocks all streams: after k pacing intervals its packet was handed
   over k times and the packet of the healthy stream 1 behind it is still queued, for every k *)
Theorem C17d_requeue_on_error_blocks_other_streams_refuted : forall k,
  let s := erun RetryHead (einit [0; 1]) ([EWrite ea; EWrite eb] ++ rounds k) in
  es_accepted s = [ea; eb] /\ es_calls s = repeat (ea, HErr) k /\ es_queue s = [ea; eb].
Proof. exact retry_blocks. Qed.
Print Assumptions C17d_requeue_on_error_blocks_other_streams_refuted.

(* ... and it is the same LTS as the code on every history in which no next writer returns an error (whole state
   equal, every interleaving).  Every history the check generated before this round was of that kind. *)
Theorem C17d_requeue_on_error_agrees_without_errors : forall s ops, Forall eop_ok ops ->
  erun RetryHead s ops = erun MoveOn s ops.
Proof. exact erun_agree. Qed.
Print Assumptions C17d_requeue_on_error_agrees_without_errors.

Example C17d_without_errors_nonvacuous :
  Forall eop_ok [EWrite ea; EWrite eb; ETickStart 1; EPop; ESend 112 true; EPop; ESend 112 true].
Proof. repeat constructor. Qed.
Print Assumptions C17d_without_errors_nonvacuous.

(* ---------------- pacing interceptor ---------------- *)

(* every interleaving of Writes, receives, ticks whose next-writer calls return any results, and rate changes *)
Theorem C17d_pacing_exactly_once_whatever_next_writer_returns : forall rate burst t0 ops,
  let s := grun MoveOn (ginit rate burst t0) ops in
  map fst (g_done s) ++ g_local s ++ g_chan s = g_accepted s.
Proof. exact pacing_fail_fifo. Qed.
Print Assumptions C17d_pacing_exactly_once_whatever_next_writer_returns.

Theorem C17d_pacing_no_second_call : forall rate burst t0 ops,
  let s := grun MoveOn (ginit rate burst t0) ops in
  NoDup (g_accepted s) -> NoDup (map fst (g_done s)).
Proof. exact pacing_fail_no_second_call. Qed.
Print Assumptions C17d_pacing_no_second_call.

Theorem C17d_pacing_next_writer_result_irrelevant : forall rate burst t0 ops1 ops2, map gop_pop ops1 = map gop_pop ops2 ->
  let s1 := grun MoveOn (ginit rate burst t0) ops1 in
  let s2 := grun MoveOn (ginit rate burst t0) ops2 in
  map fst (g_done s1) = map fst (g_done s2) /\ g_local s1 = g_local s2 /\ g_chan s1 = g_chan s2 /\
  g_tb s1 = g_tb s2 /\ g_bits s1 = g_bits s2 /\ g_accepted s1 = g_accepted s2.
Proof. exact pacing_fail_outcome_irrelevant. Qed.
Print Assumptions C17d_pacing_next_writer_result_irrelevant.

Theorem C17d_pacing_embeds : forall rate burst t0 ops,
  gproj (grun MoveOn (ginit rate burst t0) ops) = prun (pinit rate burst t0) (map gop_pop ops).
Proof. exact pacing_fail_embeds. Qed.
Print Assumptions C17d_pacing_embeds.

(* a failed hand-off is billed like any other: the envelope holds with failing next writers *)
Theorem C17d_pacing_envelope_with_failing_next_writers : forall rate burst t0 ops,
  0 <= rate -> 0 <= burst -> rates_ok (map gop_pop ops) ->
  g_bits (grun MoveOn (ginit rate burst t0) ops) * NS <=
  burst * NS + earned_total (pinit rate burst t0) (map gop_pop ops).
Proof. exact pacing_fail_envelope. Qed.
Print Assumptions C17d_pacing_envelope_with_failing_next_writers.

Theorem C17d_pacing_retry_on_error_duplicates_refuted :
  let s := grun RetryHead (ginit 1 12000 0)
             [GWrite ea; GWrite eb; GRecv; GRecv; GTick (12000 * NS) [false]; GTick (24000 * NS) []] in
  g_accepted s = [ea; eb] /\ g_done s = [(ea, false); (ea, true); (eb, true)] /\ g_local s = [] /\ g_chan s = [].
Proof. exact pacing_retry_duplicates. Qed.
Print Assumptions C17d_pacing_retry_on_error_duplicates_refuted.

Theorem C17d_pacing_code_same_history_once :
  let s := grun MoveOn (ginit 1 12000 0)
             [GWrite ea; GWrite eb; GRecv; GRecv; GTick (12000 * NS) [false]; GTick (24000 * NS) []] in
  g_accepted s = [ea; eb] /\ g_done s = [(ea, false); (eb, true)] /\ g_local s = [] /\ g_chan s = [].
Proof. exact pacing_moveon_same_history. Qed.
Print Assumptions C17d_pacing_code_same_history_once.

Theorem C17d_pacing_retry_on_error_agrees_without_errors : forall s ops, Forall gop_ok ops ->
  grun RetryHead s ops = grun MoveOn s ops.
Proof. exact grun_agree. Qed.
Print Assumptions C17d_pacing_retry_on_error_agrees_without_errors.

Example C17d_pacing_without_errors_nonvacuous :
  Forall gop_ok [GWrite ea; GRecv; GTick (12000 * NS) [true]; GTick (24000 * NS) []].
Proof. repeat constructor. Qed.
Print Assumptions C17d_pacing_without_errors_nonvacuous.

(* ---------------- what the token bucket is debited per packet (Model/PacerDebit.v) ----------------
   The bits handed downstream are 8 * (marshalled header size + payload length): ps_bits counts exactly these, whatever
   is debited.  The debit is a function of the packet; the code debits real_bits = 8 * (hlen + plen). *)

(* with the code's debit the LTS is the first-round LTS, so every C17_/C17b_ theorem about pst speaks about real bits *)
Theorem C17d_debit_real_size_is_the_code : forall s ops, drun real_bits s ops = prun s ops.
Proof. exact drun_real. Qed.
Print Assumptions C17d_debit_real_size_is_the_code.

(* REAL bits released never exceed the burst plus what the configured rates earn over the elapsed time - for every
   debit that covers the real marshalled size of every packet, in every interleaving, with rate changes *)
Theorem C17d_envelope_real_bits_for_covering_debit : forall cost, (forall p, 8 * plen p <= cost p) ->
  forall rate burst t0 ops, 0 <= rate -> 0 <= burst -> rates_ok ops ->
  ps_bits (drun cost (pinit rate burst t0) ops) * NS <= burst * NS + dearned_total cost (pinit rate burst t0) ops.
Proof. exact debit_envelope. Qed.
Print Assumptions C17d_envelope_real_bits_for_covering_debit.

Theorem C17d_envelope_real_bits : forall rate burst t0 ops, 0 <= rate -> 0 <= burst -> rates_ok ops ->
  ps_bits (drun real_bits (pinit rate burst t0) ops) * NS <= burst * NS + dearned_total real_bits (pinit rate burst t0) ops.
Proof. exact real_debit_envelope. Qed.
Print Assumptions C17d_envelope_real_bits.

(* order and exactly-once do not depend on the debit *)
Theorem C17d_fifo_for_any_debit : forall cost rate burst t0 ops,
  let s := drun cost (pinit rate burst t0) ops in
  ps_delivered s ++ ps_local s ++ ps_chan s = ps_accepted s.
Proof. exact drun_fifo. Qed.
Print Assumptions C17d_fifo_for_any_debit.

(* a debit of 8 * (12 + payload length) - "an RTP header is 12 bytes" - breaks the envelope: ten packets with a
   272-byte header (15 CSRCs, 200-byte extension block) and no payload against a 12000-bit bucket, one tick at elapsed
   time 0: 21760 real bits leave, nothing was earned *)
Theorem C17d_fixed_header_debit_envelope_refuted :
  let s := drun fixed_header_bits (pinit 1000000 12000 0) hops in
  ps_delivered s = map hp (zrange 0 10) /\ ps_bits s = 21760 /\
  dearned_total fixed_header_bits (pinit 1000000 12000 0) hops = 0 /\
  ps_bits s * NS > 12000 * NS + dearned_total fixed_header_bits (pinit 1000000 12000 0) hops.
Proof. exact fixed_header_debit_breaks_envelope. Qed.
Print Assumptions C17d_fixed_header_debit_envelope_refuted.

Theorem C17d_real_debit_same_history_within_burst :
  let s := drun real_bits (pinit 1000000 12000 0) hops in
  ps_delivered s = map hp (zrange 0 5) /\ ps_bits s = 10880 /\ length (ps_local s) = 5%nat.
Proof. exact real_debit_same_history. Qed.
Print Assumptions C17d_real_debit_same_history_within_burst.

(* ... and is indistinguishable from the code while every queued packet has the plain 12-byte header - the header shape
   of every packet the envelope scenario sent before this round *)
Theorem C17d_fixed_header_debit_agrees_on_plain_headers : forall fuel now q b del bits,
  Forall (fun p => Z.abs (p_hlen p) = 12) q ->
  drelease fixed_header_bits fuel now q b del bits = drelease real_bits fuel now q b del bits.
Proof. exact fixed_agrees_plain_headers. Qed.
Print Assumptions C17d_fixed_header_debit_agrees_on_plain_headers.

Example C17d_plain_headers_nonvacuous : Forall (fun p => Z.abs (p_hlen p) = 12) [mkP 0 1 12 2 700; mkP 0 3 12 4 0].
Proof. repeat constructor. Qed.
Print Assumptions C17d_plain_headers_nonvacuous.
