(* C07 - Sender reports count what was sent and map RTP time to wall time.
   Statements only; proofs are in Proofs/SenderStreamProofs.v and Check/C07Check.v.
   All theorems hold for every float kernel [ek] (uint32(elapsed.Seconds()*rate))
   and [k1] (ntp.ToNTP), every clock rate, both settings of use-latest, and
   every operation list (no bound on its length). *)
From IV Require Import Base.Word Model.Ntp Model.SenderStream Spec.SenderSpec
  Proofs.SenderStreamProofs Proofs.SenderInterceptorProofs Check.C07Check.

(* Every report of every history is the specification's report on the sends
   before it: NTP = ToNTP(now); RTP time = timestamp of the newest packet
   (half-range order; every packet under use-latest) + kernel(elapsed since the
   first packet of its frame was sent) mod 2^32; packet and octet counts = the
   recount mod 2^32. *)
Theorem C07_reports : forall ek k1 rate ul ops,
  s_run ek k1 rate ul s_init ops = sp_run ek k1 rate ul [] ops.
Proof. exact run_is_spec. Qed.
Print Assumptions C07_reports.

(* the same, for one report after a history h, with the fields spelled out *)
Theorem C07_report_fields : forall ek k1 rate ul h now,
  s_report ek k1 rate (s_final ek k1 rate ul s_init h) now =
  let '(ts, el) := match sp_ref (sp_accepted ul [] h) with
                   | Some (ts, t) => (ts, dur_sub now t)
                   | None => (0, MaxDur)
                   end in
  (to_ntp k1 now,
   (ts + (ek el rate) mod 4294967296) mod 4294967296,
   sp_count h mod 4294967296,
   sp_octets h mod 4294967296).
Proof. exact report_after. Qed.
Print Assumptions C07_report_fields.

(* counts alone: packets and payload octets, both modulo 2^32 *)
Theorem C07_counts : forall ek k1 rate ul h,
  let st := s_final ek k1 rate ul s_init h in
  s_pc st = sp_count h mod 4294967296 /\ s_oc st = sp_octets h mod 4294967296.
Proof.
  intros. apply counts_final. apply init_counters; assumption.
Qed.
Print Assumptions C07_counts.

(* reference selection: after any history the stream's reference is the
   timestamp of the newest accepted packet and the send time of the first
   packet of its frame *)
Theorem C07_reference : forall ek k1 rate ul h,
  sinv (sp_accepted ul [] h) (s_final ek k1 rate ul s_init h).
Proof. intros. apply ref_final. reflexivity. Qed.
Print Assumptions C07_reference.

(* once any packet has been sent the reference time is set, whatever its
   timestamp (design-review finding F6 was a history violating this) *)
Theorem C07_reference_time_set : forall ek k1 rate ul pre now seq ts len post,
  exists t, s_ref_time (s_final ek k1 rate ul s_init (pre ++ SRtp now seq ts len :: post)) = Some t.
Proof. exact ref_time_set. Qed.
Print Assumptions C07_reference_time_set.

(* without use-latest an out-of-order send (not newer than the newest sent, in
   the half-range order) leaves the reference untouched *)
Theorem C07_no_backward : forall st now seq ts len,
  s_started st = true -> newer16 seq (s_last_sn st) = false ->
  let st' := s_rtp false st now seq ts len in
  s_ref_rtp st' = s_ref_rtp st /\ s_ref_time st' = s_ref_time st /\ s_last_sn st' = s_last_sn st.
Proof. intros. apply no_backward; auto. Qed.
Print Assumptions C07_no_backward.

(* in terms of TRUE sequence numbers: if every packet's number is less than
   2^15 away from the largest number sent before it, the accepted packets are
   exactly the running maxima - the reference follows the packet with the
   largest sequence number and never an older one, across any number of 2^16
   wraps *)
Theorem C07_reference_true_order : forall h,
  within_half None h ->
  sp_accepted false [] (map wrap_op h) = map wrap_acc (sp_accepted_true [] h).
Proof. intros h H. exact (accepted_true_wrap h [] H). Qed.
Print Assumptions C07_reference_true_order.

Example C07_reference_true_order_nonvacuous :
  within_half None [SRtp 0 65534 10 1; SRtp 1 65536 20 1; SRtp 2 65535 15 1; SRtp 3 65537 20 1] /\
  sp_accepted_true [] [SRtp 0 65534 10 1; SRtp 1 65536 20 1; SRtp 2 65535 15 1; SRtp 3 65537 20 1]
  = [(65537, 20, 3); (65536, 20, 1); (65534, 10, 0)].
Proof. split; [simpl; lia|reflexivity]. Qed.
Print Assumptions C07_reference_true_order_nonvacuous.

(* the hook's AdvancePacketCount(n) equals n sends of the reference packet
   with an empty payload (used to reach the 2^32 counter wrap) *)
Theorem C07_advance_is_repeated_send : forall ek k1 rate ul n st now,
  s_started st = true -> 0 <= s_pc st < 4294967296 -> 0 <= s_oc st < 4294967296 ->
  Nat.iter n (fun s => s_rtp ul s now (s_last_sn s) (s_ref_rtp s) 0) st =
  fst (s_step ek k1 rate ul st (SAdv (Z.of_nat n))).
Proof. intros. apply advance_is_dups; auto. Qed.
Print Assumptions C07_advance_is_repeated_send.

(* the specification oracle's counting part is the Prop-level statement *)
Theorem C07_oracle_counts : forall rate ul h now ntp rtp pc oc,
  report_code rate ul h now (ntp, rtp, pc, oc) = 0%nat ->
  pc = sp_count h mod 4294967296 /\ oc = sp_octets h mod 4294967296.
Proof. intros. exact (report_code_counts rate ul h now (ntp, rtp, pc, oc) H). Qed.
Print Assumptions C07_oracle_counts.

(* the oracle asks no more than the theorems give: for kernels within the
   stated tolerances of the exact rational values, the report of C07_reports
   passes the oracle after every history *)
Theorem C07_oracle_not_stronger : forall ek k1 rate ul,
  0 <= rate ->
  (forall d, 0 <= d <= MaxDur -> d * rate / 1000000000 < 4611686018427387904 ->
     exists e, Z.abs e <= 1 + (d * rate / 1000000000) / 1125899906842624 /\
               ek d rate = (d * rate / 1000000000 + e) mod 4294967296) ->
  (forall now, 0 <= now < 2085978496 * 1000000000 -> Z.abs (to_ntp k1 now - ntp_exact now) <= 8192) ->
  forall h now, report_code rate ul h now (sp_report ek k1 rate ul h now) = 0%nat.
Proof. intros. apply model_passes_oracle; auto. Qed.
Print Assumptions C07_oracle_not_stronger.

(* INTERCEPTOR LEVEL ("each sender report for a bound local stream", several
   streams): after any sequence of BindLocalStream / UnbindLocalStream / writes /
   ticks, a tick writes a report for SSRC s iff s is bound, and that report is
   the specification's report on the history of s alone (its clock rate and its
   writes since its latest bind, [trackh]) - streams do not influence each other *)
Theorem C07_interceptor_reports : forall ek k1 ul ops now s rep,
  In (s, rep) (snd (si_step ek k1 ul (si_final ek k1 ul [] ops) (SITick now))) <->
  exists rate h, fold_left (trackh s) ops None = Some (rate, h) /\
                 rep = sp_report ek k1 rate ul h now.
Proof. exact tick_reports. Qed.
Print Assumptions C07_interceptor_reports.
