(* C17, round-5 strengthening.
   (a) "the cumulative bits released by any instant never exceed the BURST ALLOWANCE plus the configured rate times the
       elapsed time": the allowance is the one of the CONFIGURED interval, spec_burst iv rate = max 12000 (rate / (1000 / iv))
       (pkg/pacing burst()), at construction and after every mid-stream rate change, and the bound holds from every
       instant of the run (every window), in particular from the end of an idle period.  The oracle env_win / env_cfg
       (Check/C17eCheck.v) computes the allowance itself instead of believing the burst the implementation hands to its
       limiter.
   (b) leaky bucket: "its stream's next writer" - every value of the SSRC names a stream, 0 and 2^32 - 1 too.
   Statements only; proofs in Proofs/PacerWindowProofs.v. *)
From IV Require Import Base.Word Model.PacerQueue Proofs.PacerProofs Check.C17Check Check.C17bCheck Check.C17dCheck
  Check.C17eCheck Proofs.PacerEnvelopeMore Proofs.PacerWindowProofs.

(* ---------------- (a) the envelope with the allowance of the configured interval ---------------- *)

(* The windowed oracle accepts the exact integer limiter answering the calls itself on EVERY call sequence - no
   assumption on the time stamps - provided every burst handed to the limiter (constructor, rate changes) is within the
   allowance of the configured interval for the rate in force.  So an alarm of env_cfg code 25 on a limiter that
   computes like x/time/rate means: a burst outside the allowance, or releases the limiter did not authorise. *)
Theorem C17e_window_oracle_sound_for_exact_limiter : forall sset iv rate burst t0 evs,
  0 <= sset -> 0 <= rate -> 0 <= burst <= spec_burst iv rate -> calls_cfg iv evs ->
  env_win sset iv rate (spec_burst iv rate) t0 (spec_burst iv rate * NS)
    (tb_trace (mkTB rate burst (burst * NS) t0) evs) = true.
Proof. exact env_win_sound. Qed.
Print Assumptions C17e_window_oracle_sound_for_exact_limiter.

Example C17e_window_oracle_sound_nonvacuous :
  calls_cfg 1 [(0, 1000000, 9600, 0); (1, 2000000, 20000000, 20000); (0, 22000000, 9600, 0); (0, 22000000, 9600, 0); (0, 22000000, 9600, 0)] /\
  grants (tb_trace (mkTB 10000000 12000 (12000 * NS) 0)
            [(0, 1000000, 9600, 0); (1, 2000000, 20000000, 20000); (0, 22000000, 9600, 0); (0, 22000000, 9600, 0); (0, 22000000, 9600, 0)])
  = [9600; 9600; 9600].
Proof. vm_compute. repeat split; try discriminate; reflexivity. Qed.
Print Assumptions C17e_window_oracle_sound_nonvacuous.

(* the checker as a whole (code 0) on the exact limiter's own run *)
Theorem C17e_env_cfg_accepts_exact_limiter : forall iv rate burst t0 evs,
  0 <= rate -> 0 <= burst <= spec_burst iv rate -> calls_cfg iv evs ->
  let tr := tb_trace (mkTB rate burst (burst * NS) t0) evs in
  env_cfg (iv, (rate, burst, t0, tr, grants tr)) = 0%nat.
Proof. exact env_cfg_accepts_exact_limiter. Qed.
Print Assumptions C17e_env_cfg_accepts_exact_limiter.

(* what code 0 of the checker says *)
Theorem C17e_env_cfg_ok : forall iv r0 b0 t0 evs sizes, env_cfg (iv, (r0, b0, t0, evs, sizes)) = 0%nat ->
  env_win 5000000 iv r0 (spec_burst iv r0) t0 (spec_burst iv r0 * NS) (subst_sizes evs sizes) = true /\
  b0 <= spec_burst iv r0 /\ bursts_within iv evs = true.
Proof. exact env_cfg_ok. Qed.
Print Assumptions C17e_env_cfg_ok.

(* EVERY WINDOW: if the oracle accepts a run, then for every split of the run into a part before and a part after an
   instant, the part after the instant satisfies the plain cumulative envelope started at that instant with an empty
   account: at every release, bits released since <= allowance (largest of the rates configured so far) + rate * time
   since (+ the clock tolerance of the stamps after the instant, + 1 bit).  The time before the instant - an idle
   period, say - earns nothing. *)
Theorem C17e_window_oracle_is_every_window : forall sset iv rate cap t0 evs,
  env_win sset iv rate cap t0 (cap * NS) evs = true ->
  forall pre post, evs = pre ++ post ->
  let '(rate', cap', M', _) := win_state sset iv rate cap t0 (cap * NS) pre in
  env_cum sset iv rate' cap' M' 0 0 post = true.
Proof. exact env_win_every_window. Qed.
Print Assumptions C17e_window_oracle_is_every_window.

(* The allowance of ANOTHER interval.  Configured interval 1 ms, 10 Mbit/s; a mid-stream rate change to 20 Mbit/s;
   20 ms without traffic; then ten 9600-bit packets are offered at one tick.  The limiter that was handed
   burst(20 Mbit/s, 1 ms) = 20000 releases two packets and the checker returns 0; the limiter that was handed the
   allowance of the 5 ms default, 100000, releases all ten (96000 bit at one instant) and the checker returns 25 -
   while the round-4 oracle, which believes the burst handed over, returns 0 on the very same run. *)
Theorem C17e_other_interval_burst_refuted :
  let b0 := mkTB 10000000 12000 (12000 * NS) 0 in
  let good := tb_trace b0 (idle_backlog_calls (spec_burst 1 20000000)) in
  let bad := tb_trace b0 (idle_backlog_calls (spec_burst 5 20000000)) in
  spec_burst 1 20000000 = 20000 /\ spec_burst 5 20000000 = 100000 /\
  granted_bits good = 19200 /\ env_cfg (1, (10000000, 12000, 0, good, grants good)) = 0%nat /\
  granted_bits bad = 96000 /\ env_cfg (1, (10000000, 12000, 0, bad, grants bad)) = 25%nat /\
  env_real (10000000, 12000, 0, bad, grants bad) = 0%nat.
Proof. exact other_interval_burst_rejected. Qed.
Print Assumptions C17e_other_interval_burst_refuted.

(* ... and why no earlier run could tell: up to 2.4 Mbit/s (the floor of one 1500-byte packet decides) and for every
   configured interval of 1..5 ms the two allowances coincide *)
Theorem C17e_other_interval_burst_agrees_low_rate : forall iv rate, 1 <= iv <= 5 -> 0 <= rate <= 2400000 ->
  spec_burst iv rate = spec_burst 5 rate.
Proof. exact other_interval_burst_agrees_low_rate. Qed.
Print Assumptions C17e_other_interval_burst_agrees_low_rate.

(* ---------------- (b) leaky bucket: every SSRC is a stream ---------------- *)

(* For EVERY value x of the SSRC: a stream registered with x (whatever else is registered) and k packets written for
   it; one tick with budget and k pop/send pairs: all k accepted, all k handed to the stream's writer, in order. *)
Theorem C17e_leaky_any_ssrc_delivered : forall x known (ps : list pkt),
  Forall (fun p => p_stream p = x) ps ->
  let s := lrun (linit known) (LAddStream x :: map LWrite ps ++ [LTickStart 1] ++ concat (repeat [LPop; LSend 0] (length ps))) in
  ls_accepted s = ps /\ ls_delivered s = ps /\ ls_queue s = [] /\ ls_inflight s = None.
Proof. exact leaky_any_ssrc_delivered. Qed.
Print Assumptions C17e_leaky_any_ssrc_delivered.

(* A registration that ignores SSRC 0 ("unset"): the packet of stream 0 is accepted, taken off the queue and handed to
   nobody; the other stream is served. *)
Theorem C17e_registration_skipping_zero_drops_refuted :
  let s := lrun_skip (fun x => x =? 0) (linit []) zero_ssrc_history in
  ls_accepted s = [z0; z1] /\ ls_delivered s = [z1] /\ ls_done s = [(z0, false); (z1, true)] /\ ls_queue s = [] /\ ls_inflight s = None.
Proof. exact skip_zero_drops_accepted_packet. Qed.
Print Assumptions C17e_registration_skipping_zero_drops_refuted.

(* the code, same history: both handed over *)
Theorem C17e_code_zero_ssrc_same_history :
  let s := lrun (linit []) zero_ssrc_history in
  ls_accepted s = [z0; z1] /\ ls_delivered s = [z0; z1] /\ ls_queue s = [] /\ ls_inflight s = None.
Proof. exact code_zero_ssrc_same_history. Qed.
Print Assumptions C17e_code_zero_ssrc_same_history.

(* on every history that never registers a skipped SSRC the two registrations are the same LTS (whole state equal):
   no run with SSRCs 1000 + w could tell them apart *)
Theorem C17e_registration_skipping_agrees_without_skipped_ssrc : forall skip ops s,
  Forall (fun o => match o with LAddStream x => skip x = false | _ => True end) ops ->
  lrun_skip skip s ops = lrun s ops.
Proof. exact skip_agrees_without_skipped_ssrc. Qed.
Print Assumptions C17e_registration_skipping_agrees_without_skipped_ssrc.
