(* Source ties of C12, statements only.  Every theorem says that a hand-written model function that the
   property theorems are about IS (equal to, or refined by under the stated representation of
   the state) the Gallina definition that tools/go2coq regenerates from the Go source on this run
   (coq/Generated/GoCoresC12.v).  Proofs: coq/Proofs/GeneratedEqC12.v.  The theorem name starts with
   the id of the property it belongs to.

   Conventions.  uintN parameters carry their range hypothesis 0 <= x < 2^N explicitly.
   [bits_of p q] is bit q mod 64 of word q / 64 of the []uint64 bitmap p; [nack_rep sz p f] /
   [rs_rep p f] say that the model's bitmap f (position -> bool) is p read bit by bit;
   [chunk_of] is the model's record for a Go chunk {hasLargeDelta, hasDifferentTypes, deltas}.
   time.Time is the model's [option Z], float64 any type (both are only copied by the functions
   concerned).  g_f_safe = true: the Go function does not panic on these inputs. *)
From IV Require Import Base.Word.
From IV Require Model.ReceiveLog Proofs.ReceiveLogProofs Model.ReceiverStream Model.SenderStream Model.TwccChunk
  Model.ArrivalMap Model.Flexfec Model.GccDecision Model.MemBound Model.PriorityQueue Model.JitterBuffer Spec.FlexfecSpec.
From IV Require Import Base.GoPrelude Proofs.GoPreludeProofs Generated.GoCoresC12 Proofs.GeneratedEqC12.
Import ReceiveLogProofs.

(* the bitmap slices never change length (Model/MemBound.v: rl_step, rs_step) *)

Theorem C12_model_is_the_source_receiveLog_bitmap : forall p sz seq,
  g_len (g_nack_receiveLog_setReceived p sz seq) = MemBound.rl_step (g_len p) seq /\
  g_len (g_nack_receiveLog_delReceived p sz seq) = MemBound.rl_step (g_len p) seq.
Proof. exact gen_nack_bitmap_length. Qed.
Print Assumptions C12_model_is_the_source_receiveLog_bitmap.

Theorem C12_model_is_the_source_receiverStream_bitmap : forall p sz seq,
  g_len (g_report_receiverStream_setReceived sz p seq) = MemBound.rs_step (g_len p) seq /\
  g_len (g_report_receiverStream_delReceived sz p seq) = MemBound.rs_step (g_len p) seq.
Proof. exact gen_report_bitmap_length. Qed.
Print Assumptions C12_model_is_the_source_receiverStream_bitmap.

