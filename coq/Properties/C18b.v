(* C18 (deepening round) - Jitter buffer emits pushed packets in sequence order,
   at most once.  Statements only; proofs are in Proofs/JitterBufferMore.v,
   Proofs/PriorityQueueSorted.v, Proofs/JbReceiverInterceptorProofs.v,
   Proofs/JitterBufferUnfixedProofs.v.

   Vocabulary (in addition to Properties/C18.v).
   [sp] is the abstract state of the specification: the packet objects currently
   buffered [sbuf], the playout head [shead], whether playback has started
   [sstarted], the ids handed out by pops [sret], the ids that were buffered at a
   Clear [sold].  [spec_step t o r t'] is the specification of ONE call (operation
   o answered r takes t to t') as a Prop; [Steps t tr t'] is its closure over a
   trace [tr : list (op * out)] (which call returned what).  [sp_step]/[sp_run]
   is the boolean oracle of Check/C18Check.v that the correspondence check runs
   on the implementation's outputs.
   Trace vocabulary: [npush tr] number of Push calls (= id of the next pushed
   object); [pushed_as tr id sq ts after] the object id was pushed with (sq, ts)
   and [after] is what happened since; [popped tr id] some pop of tr returned
   object id; [popids tr] ids returned by the pops, in order; [heads tr] sequence
   numbers returned by the successful Pop() calls, in order; [adv tr] number of
   successful Pop()/PopAtSequence() calls; [consec h n] = h, h+1, ... (n numbers,
   modulo 2^16); [none_of f tr] no call of tr is of kind f; [live t] playback has
   started or a packet is buffered.
   [model_trace min ops] is the trace of the pointer-level model on history ops.
   [cri_run ins] is the run of the receiver interceptor (over the pointer-level
   queue, New() = minimum 50) on a stream of upstream reads [ins]; [delivered]
   what reached the application; [cri_jbtrace] the jitter-buffer calls it made. *)
From IV Require Import Base.Word Model.PriorityQueue Model.JitterBuffer Model.JitterBufferUnfixed
  Model.JbReceiverInterceptor
  Proofs.PriorityQueueProofs Proofs.JitterBufferProofs Proofs.JitterBufferMore
  Proofs.PriorityQueueSorted Proofs.JbReceiverInterceptorProofs Proofs.JitterBufferUnfixedProofs
  Check.C18Check Check.C18bCheck.

(* ================= 1. oracle <-> Prop, every operation kind ================= *)
(* the boolean oracle accepts a call (Push, Pop, PopAtSequence, PopAtTimestamp,
   Peek, PeekAtSequence, SetPlayoutHead, PlayoutHead, Clear(true/false))
   exactly when the Prop-level specification [spec_step] (Proofs/JitterBufferMore.v,
   one commented constructor per clause of the property) holds *)
Theorem C18_oracle_step_iff : forall t o r t', sp_step t o r = inl t' <-> spec_step t o r t'.
Proof. exact sp_step_iff. Qed.
Print Assumptions C18_oracle_step_iff.

(* ... and a whole history exactly when outputs line up with the calls and every
   call satisfies the specification in turn *)
Theorem C18_oracle_history_iff : forall ops outs t,
  sp_run t ops outs = 0%nat <->
  length ops = length outs /\ exists t', Steps t (combine ops (map fst outs)) t'.
Proof. exact sp_run_accepts_iff. Qed.
Print Assumptions C18_oracle_history_iff.

(* what the specification says about every packet-returning call: pops and
   peeks/finds alike return a buffered, never returned, not cleared object *)
Theorem C18_spec_returned_object : forall t o id sq ts t', spec_step t o (RPkt id sq ts) t' ->
  In (mkPkt id sq ts) (sbuf t) /\ ~ In id (sret t) /\ ~ In id (sold t).
Proof. exact spec_step_pkt. Qed.
Print Assumptions C18_spec_returned_object.

(* ================= 2. the property, over whole histories ================= *)
(* (i) identity, not returned before, nothing from before a Clear: in every
   accepted history, whatever call returns a packet object (any pop, peek or
   find), that very object was pushed earlier with exactly that sequence number
   and timestamp, no Clear lies between that push and this call, and no earlier
   pop returned it *)
Theorem C18_history_objects : forall min tr1 o id sq ts tr2 t',
  Steps (sp_new min) (tr1 ++ (o, RPkt id sq ts) :: tr2) t' ->
  exists after, pushed_as tr1 id sq ts after /\ none_of is_clearb after /\ ~ popped tr1 id.
Proof. exact hist_objects. Qed.
Print Assumptions C18_history_objects.

(* (ii) at most once *)
Theorem C18_history_at_most_once : forall t tr t', Steps t tr t' -> NoDup (popids tr).
Proof. exact hist_at_most_once. Qed.
Print Assumptions C18_history_at_most_once.

(* (iii) consecutive from the first packet buffered: the first Push into an
   empty buffer whose playback has not started (the initial state, and the state
   after Clear(true)) has number sq0; as long as nobody moves the cursor by hand
   (SetPlayoutHead, PopAtSequence) or clears, the successful Pop() calls return
   sq0, sq0+1, sq0+2, ... modulo 2^16 - whatever else is interleaved (pushes in
   any order, duplicates, PopAtTimestamp, peeks) *)
Theorem C18_history_consecutive_from_first : forall t sq0 ts0 r0 rest t',
  Steps t ((OPush sq0 ts0, r0) :: rest) t' ->
  sstarted t = false -> sbuf t = [] -> 0 <= sq0 < 65536 ->
  none_of is_setheadb rest -> none_of is_clearb rest -> none_of is_popatseqb rest ->
  heads rest = consec sq0 (length (heads rest)).
Proof. exact hist_consecutive_from_first. Qed.
Print Assumptions C18_history_consecutive_from_first.

(* (iii') once playback has started the same holds from the current head, and a
   Clear(false) in between does not disturb it *)
Theorem C18_history_consecutive_started : forall tr t t',
  Steps t tr t' -> sstarted t = true -> 0 <= shead t < 65536 ->
  none_of is_setheadb tr -> none_of is_resetb tr -> none_of is_popatseqb tr ->
  heads tr = consec (shead t) (length (heads tr)).
Proof. exact hist_consecutive_started. Qed.
Print Assumptions C18_history_consecutive_started.

(* (iii'') the cursor reading that also covers PopAtSequence (which advances the
   head by one wherever it pops, see the anchors): a successful Pop() returns the
   head at the beginning of the stretch plus the number of successful
   Pop/PopAtSequence calls in between *)
Theorem C18_history_pop_position : forall t tr1 id sq ts tr2 t',
  Steps t (tr1 ++ (OPop, RPkt id sq ts) :: tr2) t' ->
  none_of is_setheadb tr1 -> none_of is_clearb tr1 -> live t -> 0 <= shead t < 65536 ->
  sq = (shead t + adv tr1) mod 65536.
Proof. exact hist_pop_position. Qed.
Print Assumptions C18_history_pop_position.

(* (iv) pops before playback starts are refused *)
Theorem C18_history_refused_before_start : forall min tr1 o r tr2 t',
  Steps (sp_new min) (tr1 ++ (o, r) :: tr2) t' ->
  is_popb o = true -> none_of is_resetb tr1 -> npush tr1 < min ->
  r = RErr ErrPopWhileBuffering.
Proof. exact hist_refused_before_start. Qed.
Print Assumptions C18_history_refused_before_start.

(* (v) a failed pop changes nothing the specification talks about: deleting it
   from an accepted history leaves an accepted history with the same final state *)
Theorem C18_history_failed_pop_changes_nothing : forall t tr1 o e tr2 t',
  Steps t (tr1 ++ (o, RErr e) :: tr2) t' -> is_popb o = true -> Steps t (tr1 ++ tr2) t'.
Proof. exact hist_failed_pop_changes_nothing. Qed.
Print Assumptions C18_history_failed_pop_changes_nothing.

(* ---- the same for the model of the code, every history, every minimum ---- *)
Theorem C18_model_trace_accepted : forall min ops, 0 <= min < 65536 ->
  length (cjb_run min ops) = length ops /\ exists t', Steps (sp_new min) (model_trace min ops) t'.
Proof. exact model_trace_accepted. Qed.
Print Assumptions C18_model_trace_accepted.

Theorem C18_model_objects : forall min ops tr1 o id sq ts tr2, 0 <= min < 65536 ->
  model_trace min ops = tr1 ++ (o, RPkt id sq ts) :: tr2 ->
  exists after, pushed_as tr1 id sq ts after /\ none_of is_clearb after /\ ~ popped tr1 id.
Proof. exact model_objects. Qed.
Print Assumptions C18_model_objects.

Theorem C18_model_at_most_once : forall min ops, 0 <= min < 65536 -> NoDup (popids (model_trace min ops)).
Proof. exact model_at_most_once. Qed.
Print Assumptions C18_model_at_most_once.

Theorem C18_model_consecutive_from_first : forall min sq0 ts0 rest, 0 <= min < 65536 -> 0 <= sq0 < 65536 ->
  Forall (fun o => is_setheadb o = false /\ is_clearb o = false /\ is_popatseqb o = false) rest ->
  let tr := model_trace min (OPush sq0 ts0 :: rest) in
  heads tr = consec sq0 (length (heads tr)).
Proof. exact model_consecutive_from_first. Qed.
Print Assumptions C18_model_consecutive_from_first.

Theorem C18_model_refused_before_start : forall min ops tr1 o r tr2, 0 <= min < 65536 ->
  model_trace min ops = tr1 ++ (o, r) :: tr2 ->
  is_popb o = true -> none_of is_resetb tr1 -> npush tr1 < min ->
  r = RErr ErrPopWhileBuffering.
Proof. exact model_refused_before_start. Qed.
Print Assumptions C18_model_refused_before_start.

(* a failed pop changes nothing, on the model's own state (pointer-level queue
   included): the state is the same up to the statistics counters, which no
   exported method reads, and every continuation is answered identically *)
Theorem C18_model_failed_pop_changes_nothing : forall (s s' : jb pq) o e ev,
  is_popb o = true -> cjb_step s o = (s', RErr e, ev) ->
  same_but_stats s' s /\ forall ops, jb_run ptr_ops s' ops = jb_run ptr_ops s ops.
Proof. intros s s' o e ev. exact (failed_pop_changes_nothing ptr_ops s o s' e ev). Qed.
Print Assumptions C18_model_failed_pop_changes_nothing.

(* (vi) nothing is lost (the converse of (i)): if the object pushed with (sq, ts)
   has not been returned by a pop since and no Clear happened since, then
   PopAtSequence(sq), PopAtTimestamp(ts) and PeekAtSequence(sq) do not miss
   ([is_miss r]: r is ErrNotFound or ErrInvalidOperation); they return a packet
   or - pops before playback starts - are refused *)
Theorem C18_history_buffered_is_found : forall min tr1 o r tr2 t' id sq ts after,
  Steps (sp_new min) (tr1 ++ (o, r) :: tr2) t' ->
  pushed_as tr1 id sq ts after -> none_of is_clearb after -> ~ popped after id ->
  o = OPopAtSeq sq \/ o = OPopAtTs ts \/ o = OPeekAtSeq sq ->
  ~ is_miss r.
Proof. exact hist_buffered_is_found. Qed.
Print Assumptions C18_history_buffered_is_found.

Theorem C18_model_buffered_is_found : forall min ops tr1 o r tr2 id sq ts after, 0 <= min < 65536 ->
  model_trace min ops = tr1 ++ (o, r) :: tr2 ->
  pushed_as tr1 id sq ts after -> none_of is_clearb after -> ~ popped after id ->
  o = OPopAtSeq sq \/ o = OPopAtTs ts \/ o = OPeekAtSeq sq ->
  ~ is_miss r.
Proof. exact model_buffered_is_found. Qed.
Print Assumptions C18_model_buffered_is_found.

Example C18_example_more :
  let tr := model_trace 2 [OPush 65535 1; OPop; OPush 0 2; OPeek true; OPop; OPop; OPop; OPush 1 3; OPop] in
  map snd tr = [RUnit; RErr ErrPopWhileBuffering; RUnit; RPkt 0 65535 1; RPkt 0 65535 1; RPkt 1 0 2;
                RErr ErrInvalidOperation; RUnit; RPkt 2 1 3] /\
  heads tr = consec 65535 3.
Proof. exact more_example. Qed.
Print Assumptions C18_example_more.

(* ================= 3. the queue is ordered ================= *)
(* [sorted l]: priorities non-decreasing along the list *)
Theorem C18_pq_push_position : forall l v p, sorted l ->
  exists l1 l2, l = l1 ++ l2 /\ aq_push l v p = l1 ++ (p, v) :: l2 /\
    Forall (fun e => fst e < p) l1 /\ Forall (fun e => p <= fst e) l2.
Proof. exact aq_push_position. Qed.
Print Assumptions C18_pq_push_position.

(* after every history of direct queue calls (arbitrary priorities) the pointer
   structure is well-formed and ordered by priority; among equal priorities the
   most recently pushed comes first (C18_pq_push_position) *)
Theorem C18_pq_sorted_after_every_history : forall ops,
  exists q l, pq_state pq_new 0 ops = Ok q /\ Rep q l /\
              absl (qheap q) l = aq_state [] 0 ops /\ sorted (absl (qheap q) l).
Proof. exact pq_sorted_after_every_history. Qed.
Print Assumptions C18_pq_sorted_after_every_history.

(* consequence for Pop(): it returns an element of minimum priority *)
Theorem C18_pq_pop_returns_minimum : forall ops q w q',
  pq_state pq_new 0 ops = Ok q -> pq_pop q = Ok (w, q') ->
  exists l p, Rep q l /\ In (p, w) (absl (qheap q) l) /\ Forall (fun e => p <= fst e) (absl (qheap q) l).
Proof. exact pq_pop_returns_minimum. Qed.
Print Assumptions C18_pq_pop_returns_minimum.

(* the queue inside the jitter buffer, after every history of buffer calls *)
Theorem C18_jb_queue_sorted_after_every_history : forall min ops,
  let q := jpackets (jb_exec ptr_ops (cjb_new min) ops) in
  exists l, Rep q l /\ Vals q l /\ sorted (absl (qheap q) l).
Proof. exact jb_queue_sorted_after_every_history. Qed.
Print Assumptions C18_jb_queue_sorted_after_every_history.

Example C18_example_sorted :
  aq_state [] 0 [QPush 5 50 0; QPush 3 30 0; QPush 5 51 0; QPush 4 40 0; QPop] =
  [(4, Some (mkPkt 3 40 0)); (5, Some (mkPkt 2 51 0)); (5, Some (mkPkt 0 50 0))].
Proof. exact sorted_example. Qed.
Print Assumptions C18_example_sorted.

(* ================= 4. the receiver interceptor ================= *)
(* the interceptor oracle of Check/C18bCheck.v accepts a reader / unbind call
   exactly when the Prop-level specification [ri_spec] holds (errors handed
   through, a parsed packet is pushed, ErrPopWhileBuffering until playback
   starts, then the answer of Pop(); Unbind/Close = Clear(true)) *)
Theorem C18_ri_oracle_step_iff : forall t i d t', ri_spec_step t i d = inl t' <-> ri_spec t i d t'.
Proof. exact ri_spec_step_iff. Qed.
Print Assumptions C18_ri_oracle_step_iff.

(* every run (packets in any order, parse errors, upstream errors, Unbind/Close)
   satisfies the specification oracle the correspondence check applies to the
   real interceptor *)
Theorem C18_ri_meets_spec : forall ins, ri_spec_code (ins, cri_run ins) = 0%nat.
Proof. exact cri_meets_spec. Qed.
Print Assumptions C18_ri_meets_spec.

Theorem C18_ri_no_panic : forall ins, Forall (fun d => d <> DPanic /\ d <> DDiverge) (cri_run ins).
Proof. exact cri_no_panic. Qed.
Print Assumptions C18_ri_no_panic.

(* the jitter-buffer calls it makes are an accepted history, and what reaches
   the application is exactly what Pop() returned *)
Theorem C18_ri_trace_accepted : forall ins, exists t', Steps (sp_new default_min) (cri_jbtrace ins) t'.
Proof. exact cri_trace_accepted. Qed.
Print Assumptions C18_ri_trace_accepted.

Theorem C18_ri_delivered_is_popped : forall ins,
  map seq_of (delivered (cri_run ins)) = heads (cri_jbtrace ins) /\
  map id_of (delivered (cri_run ins)) = popids (cri_jbtrace ins).
Proof. exact cri_delivered_is_popped. Qed.
Print Assumptions C18_ri_delivered_is_popped.

(* ORDER: first parsed packet sq0, then anything but Unbind/Close: the
   application receives sq0, sq0+1, sq0+2, ... modulo 2^16 *)
Theorem C18_ri_delivers_in_order : forall sq0 ts0 rest, 0 <= sq0 < 65536 ->
  Forall (fun i => is_unbindb i = false) rest ->
  let outs := cri_run (IPkt sq0 ts0 :: rest) in
  map seq_of (delivered outs) = consec sq0 (length (delivered outs)).
Proof. exact cri_delivers_in_order. Qed.
Print Assumptions C18_ri_delivers_in_order.

(* ORDER after Unbind/Close: whatever happened before, the first packet parsed
   after an Unbind/Close restarts the sequence *)
Theorem C18_ri_delivers_in_order_after_unbind : forall pre sq1 ts1 rest, 0 <= sq1 < 65536 ->
  Forall (fun i => is_unbindb i = false) rest ->
  let outs := skipn (S (length pre)) (cri_run (pre ++ IUnbind :: IPkt sq1 ts1 :: rest)) in
  map seq_of (delivered outs) = consec sq1 (length (delivered outs)).
Proof. exact cri_delivers_in_order_after_unbind. Qed.
Print Assumptions C18_ri_delivers_in_order_after_unbind.

(* AT MOST ONCE, THE VERY OBJECT *)
Theorem C18_ri_at_most_once : forall ins, NoDup (map id_of (delivered (cri_run ins))).
Proof. exact cri_at_most_once. Qed.
Print Assumptions C18_ri_at_most_once.

Theorem C18_ri_delivers_pushed_objects : forall ins tr1 id sq ts tr2,
  cri_jbtrace ins = tr1 ++ (OPop, RPkt id sq ts) :: tr2 ->
  exists after, pushed_as tr1 id sq ts after /\ none_of is_clearb after /\ ~ popped tr1 id.
Proof. exact cri_delivers_pushed_objects. Qed.
Print Assumptions C18_ri_delivers_pushed_objects.

Example C18_example_ri :
  let ins := map (fun k => IPkt (100 + Z.of_nat k) 0) (seq 0 52) in
  delivered (cri_run ins) = [(0, 100, 0); (1, 101, 0); (2, 102, 0)] /\
  nth 48 (cri_run ins) DBad = DErr ErrPopWhileBuffering.
Proof. exact cri_example. Qed.
Print Assumptions C18_example_ri.

(* ================= 5. the code before the F20 fix ================= *)
(* Clear(true) kept playoutReady: after it the first packet buffered (500) does
   not fix the playout head (PlayoutHead() = 11, the fixed code answers 500) and
   the oracle rejects the history with code F_head ... *)
Theorem C18_unfixed_clear_reset_refuted :
  map fst (cjb_run_f20 1 f20_ops) = [RUnit; RPkt 0 10 100; RUnit; RUnit; RHead 11] /\
  jb_spec_code (1, f20_ops, cjb_run_f20 1 f20_ops) = F_head /\
  map fst (cjb_run 1 f20_ops) = [RUnit; RPkt 0 10 100; RUnit; RUnit; RHead 500].
Proof. exact f20_head_wrong. Qed.
Print Assumptions C18_unfixed_clear_reset_refuted.

(* ... and once playback restarts (50 packets 500..549) Pop() fails although the
   first packet buffered is there (oracle code F_lost); the fixed code returns it *)
Theorem C18_unfixed_clear_reset_pop_fails_refuted :
  last (map fst (cjb_run_f20 1 f20_ops_long)) RNil = RErr ErrNotFound /\
  jb_spec_code (1, f20_ops_long, cjb_run_f20 1 f20_ops_long) = F_lost /\
  last (map fst (cjb_run 1 f20_ops_long)) RNil = RPkt 1 500 5000.
Proof. exact f20_pop_fails. Qed.
Print Assumptions C18_unfixed_clear_reset_pop_fails_refuted.
