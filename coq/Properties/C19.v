(* C19 - Stream statistics equal a recount of the observed traffic.
   Statements only; proofs are in Proofs/StatsProofs.v.

   [run fzero ku kj krj kf kd kn ssrc rate evs] is the recorder for [ssrc]
   (Model/StatsRecorder.v, pkg/stats/stats_recorder.go after the fix: commits)
   after the event history [evs]; GetStats() reads its fields.  Every theorem
   is for EVERY history (so for every query point: a query after k events is
   the theorem at the prefix of length k, see C19_every_query_point), every
   SSRC, every clock rate and every choice of the six float kernels.  The
   right-hand sides are the recount of Spec/StatsSpec.v: filter / length / sum
   / last over the event list, never the recorder's state.

   uint32 counters are exact including their wrap at 2^32; uint64 counters and
   int64 durations are unbounded Z (trusted base: < 2^63 bytes / ns).
   Float-valued figures are stated through the kernel applied to the integer
   field of the most recent matching report; that the Go kernels compute the
   WebRTC-stats formula (j/clockRate, fl/256, ts - DLSR/65536 s - NTP time)
   within 2^-50 relative / 3 ns is VALIDATED by the oracle on every generated
   case, not proved (label: partial for the float layer only). *)
From IV Require Import Base.Word Model.Unwrapper Model.Ntp Model.StatsRecorder Model.StatsKernels
  Model.StatsInterceptor Spec.StatsSpec Proofs.UnwrapperProofs Proofs.StatsProofs Proofs.StatsInterceptorProofs Check.C19Check.

(* packets / bytes / header bytes sent, for that SSRC only *)
Theorem C19_outbound_counts : forall F (fzero : F) ku kj krj kf kd kn ssrc rate evs,
  let b := sb (run fzero ku kj krj kf kd kn ssrc rate evs) in
  o_sent b = spec_out_sent ssrc evs /\ o_bytes b = spec_out_bytes ssrc evs /\ o_hdr b = spec_out_hdr ssrc evs.
Proof. intros. exact (thm_outbound_counts fzero ku kj krj kf kd kn ssrc rate evs). Qed.
Print Assumptions C19_outbound_counts.

(* packets / bytes / header bytes received and the last arrival time, for that SSRC only *)
Theorem C19_inbound_counts : forall F (fzero : F) ku kj krj kf kd kn ssrc rate evs,
  let a := sa (run fzero ku kj krj kf kd kn ssrc rate evs) in
  i_recv a = spec_in_recv ssrc evs /\ i_hdr a = spec_in_hdr ssrc evs /\
  i_bytes a = spec_in_bytes ssrc evs /\ i_last a = spec_in_last ssrc evs.
Proof. intros. exact (thm_inbound_counts fzero ku kj krj kf kd kn ssrc rate evs). Qed.
Print Assumptions C19_inbound_counts.

(* packets lost = expected - received, expected = highest - first + 1 over the
   unwrapped sequence numbers (C20's unwrapper) of the packets of that SSRC *)
Theorem C19_lost : forall F (fzero : F) ku kj krj kf kd kn ssrc rate evs,
  i_lost (sa (run fzero ku kj krj kf kd kn ssrc rate evs)) = spec_in_lost ssrc evs.
Proof. intros. exact (thm_lost fzero ku kj krj kf kd kn ssrc rate evs). Qed.
Print Assumptions C19_lost.

(* ... where, for well-typed input (sequence numbers are uint16), "highest" is
   the maximum and "first" the first of the unwrapped range *)
Theorem C19_lost_over_unwrapped_range : forall F (fzero : F) ku kj krj kf kd kn ssrc rate evs,
  Forall wf_event evs -> in_pks ssrc evs <> [] ->
  let U := in_unwrapped ssrc evs in
  exists first highest,
    hd_error U = Some first /\ In highest U /\ (forall x, In x U -> x <= highest) /\
    i_lost (sa (run fzero ku kj krj kf kd kn ssrc rate evs)) = (highest - first + 1) - zlen U.
Proof. intros F fzero ku kj krj kf kd kn ssrc rate evs. exact (thm_lost_range fzero ku kj krj kf kd kn ssrc rate evs). Qed.
Print Assumptions C19_lost_over_unwrapped_range.

(* non-vacuity: 65534, 65535, then 1 across the wrap (0 never arrives; a
   foreign SSRC in between is ignored): range 65534..65537, one packet lost *)
Example C19_lost_example :
  let evs := [InRTP 10 7 65534 0 12 100; InRTP 20 7 65535 0 12 100; InRTP 25 8 3 0 12 100; InRTP 30 7 1 0 12 100] in
  Forall wf_event evs /\ in_pks 7 evs <> [] /\ in_unwrapped 7 evs = [65534; 65535; 65537] /\ spec_in_lost 7 evs = 1.
Proof.
  cbv zeta. split; [repeat constructor; simpl; lia|]. split; [discriminate|]. split; reflexivity.
Qed.
Print Assumptions C19_lost_example.

(* NACK / PLI / FIR that WE sent about the incoming stream ssrc (InboundRTPStreamStats),
   each mod 2^32: NACK and PLI addressed by media SSRC, FIR by its FCI entries *)
Theorem C19_feedback_counts_in : forall F (fzero : F) ku kj krj kf kd kn ssrc rate evs,
  let c := sc (run fzero ku kj krj kf kd kn ssrc rate evs) in
  i_fir c = spec_fb_sent ssrc is_fir evs /\ i_pli c = spec_fb_sent ssrc is_pli evs /\
  i_nack c = spec_fb_sent ssrc is_nack evs.
Proof. intros. exact (thm_feedback_in fzero ku kj krj kf kd kn ssrc rate evs). Qed.
Print Assumptions C19_feedback_counts_in.

(* NACK / PLI / FIR that we RECEIVED about the outgoing stream ssrc (OutboundRTPStreamStats),
   wherever they stand in their compound packet (F21) *)
Theorem C19_feedback_counts_out : forall F (fzero : F) ku kj krj kf kd kn ssrc rate evs,
  let d := sd (run fzero ku kj krj kf kd kn ssrc rate evs) in
  o_fir d = spec_fb_recv ssrc is_fir evs /\ o_pli d = spec_fb_recv ssrc is_pli evs /\
  o_nack d = spec_fb_recv ssrc is_nack evs.
Proof. intros. exact (thm_feedback_out fzero ku kj krj kf kd kn ssrc rate evs). Qed.
Print Assumptions C19_feedback_counts_out.

(* remote loss, jitter, fraction lost: from the most recent reception report
   about ssrc (in any SR or RR of any compound); remote packets received:
   highest - first sequence number we sent + 1 - lost (floored at 0) of the
   most recent such report that arrived after we had sent a packet *)
Theorem C19_remote_from_latest_matching_report : forall F (fzero : F) ku kj krj kf kd kn ssrc rate evs,
  let d := sd (run fzero ku kj krj kf kd kn ssrc rate evs) in
  match spec_last_report ssrc evs with
  | Some (Rep _ fr lost _ jit _ _) => ri_lost d = lost /\ ri_jit d = krj rate jit /\ ri_frac d = kf fr
  | None => ri_lost d = 0 /\ ri_jit d = fzero /\ ri_frac d = fzero
  end /\
  ri_recv d = spec_remote_recv ssrc evs.
Proof. intros. exact (thm_remote_latest fzero ku kj krj kf kd kn ssrc rate evs). Qed.
Print Assumptions C19_remote_from_latest_matching_report.

(* "matching" loses nothing: the reports counted are ALL reception reports
   about ssrc in the SR/RR packets of the compound *)
Theorem C19_matching_reports_are_all_reports_about_ssrc : forall ssrc pkts,
  reps_for ssrc pkts = filter (fun r => rep_ssrc r =? ssrc) (flat_map reps_of pkts).
Proof. exact thm_reps_for. Qed.
Print Assumptions C19_matching_reports_are_all_reports_about_ssrc.

(* round-trip time from LSR/DLSR: one sample per report about ssrc with
   non-zero LSR and DLSR whose LSR equals the middle 32 bits of one of the last
   five sender reports we sent for ssrc (the most recent such one); sample =
   arrival - DLSR - NTP time of that report; RoundTripTime is the most recent
   sample, TotalRoundTripTime their sum, RoundTripTimeMeasurements their number *)
Theorem C19_rtt_lsr : forall F (fzero : F) ku kj krj kf kd kn ssrc rate evs,
  let d := sd (run fzero ku kj krj kf kd kn ssrc rate evs) in
  ri_meas d = zlen (lsr_samples ssrc evs) /\
  ri_total d = zsum (map (rtt3 kd kn) (lsr_samples ssrc evs)) /\
  ri_rtt d = match last_opt (lsr_samples ssrc evs) with Some smp => rtt3 kd kn smp | None => 0 end.
Proof. intros. exact (thm_rtt_lsr fzero ku kj krj kf kd kn ssrc rate evs). Qed.
Print Assumptions C19_rtt_lsr.

(* the same from DLRR sub-blocks about ssrc against the last five receiver
   reference times we sent (one sample per sub-block) *)
Theorem C19_rtt_dlrr : forall F (fzero : F) ku kj krj kf kd kn ssrc rate evs,
  let d := sd (run fzero ku kj krj kf kd kn ssrc rate evs) in
  ro_meas d = zlen (dlrr_samples ssrc evs) /\
  ro_total d = zsum (map (rtt3 kd kn) (dlrr_samples ssrc evs)) /\
  ro_rtt d = match last_opt (dlrr_samples ssrc evs) with Some smp => rtt3 kd kn smp | None => 0 end.
Proof. intros. exact (thm_rtt_dlrr fzero ku kj krj kf kd kn ssrc rate evs). Qed.
Print Assumptions C19_rtt_dlrr.

(* the sample formula is the WebRTC-stats one whenever the two duration kernels are exact *)
Theorem C19_rtt_formula : forall kd kn ts dly n,
  rtt3 kd kn (ts, dly, n) = ts - kd dly - to_time kn n.
Proof. reflexivity. Qed.
Print Assumptions C19_rtt_formula.

(* remote sender figures (not named in the property text; pion's reading of
   "matching": an SR sent by ssrc or carrying a report about ssrc) *)
Theorem C19_remote_outbound_from_latest_sr : forall F (fzero : F) ku kj krj kf kd kn ssrc rate evs,
  let d := sd (run fzero ku kj krj kf kd kn ssrc rate evs) in
  ro_reports d = spec_reports_sent ssrc evs /\
  match spec_last_sr ssrc evs with
  | Some (PSR _ ntp _ pc oc _) => ro_sent d = pc /\ ro_bytes d = oc /\ ro_ts d = Some (to_time kn ntp)
  | _ => ro_sent d = 0 /\ ro_bytes d = 0 /\ ro_ts d = None
  end.
Proof. intros. exact (thm_remote_sr fzero ku kj krj kf kd kn ssrc rate evs). Qed.
Print Assumptions C19_remote_outbound_from_latest_sr.

(* every query point: the state read after the k-th event (what the
   correspondence check compares, [run_all]) is [run] of the first k events, to
   which all theorems above apply *)
Theorem C19_every_query_point : forall F (fzero : F) ku kj krj kf kd kn ssrc rate evs k s,
  nth_error (run_all ku kj krj kf kd kn ssrc rate (st0 fzero) evs) k = Some s ->
  s = run fzero ku kj krj kf kd kn ssrc rate (firstn (S k) evs).
Proof. intros F fzero ku kj krj kf kd kn ssrc rate evs k s H. exact (run_all_nth ku kj krj kf kd kn ssrc rate evs _ k s H). Qed.
Print Assumptions C19_every_query_point.

(* the integer part of the oracle that bin/check applies to the
   implementation's outputs is exactly the Prop-level recount ... *)
Theorem C19_oracle_counts_iff : forall s evs o, counts_ok s evs o = true <-> counts_spec s evs o.
Proof. exact counts_ok_iff. Qed.
Print Assumptions C19_oracle_counts_iff.

(* ... and failure code 0 implies it *)
Theorem C19_oracle_zero_implies_counts : forall s rate evs o,
  spec_code s rate evs o = 0%nat -> counts_spec s evs o.
Proof. intros s rate evs o H. apply counts_ok_iff. exact (spec_code_zero_counts s rate evs o H). Qed.
Print Assumptions C19_oracle_zero_implies_counts.

(* several SSRCs through one interceptor (Model/StatsInterceptor.v: recorder map,
   RTP to the recorder of the stream it travels on, RTCP fanned out to all):
   Get(ssrc) is nil for a stream never bound, otherwise the single-recorder
   model - to which all theorems above apply - run with the clock rate of the
   first bind on the events "since the recorder became active": every RTCP
   compound, and the RTP of that stream, after the first bind *)
Theorem C19_interceptor_is_per_stream_recorder : forall F (fzero : F) ku kj krj kf kd kn ssrc h,
  iget fzero ku kj krj kf kd kn ssrc h =
  match first_rate ssrc h with
  | Some rate => Some (run fzero ku kj krj kf kd kn ssrc rate (project ssrc false h))
  | None => None
  end.
Proof. intros. exact (iget_spec fzero ku kj krj kf kd kn ssrc h). Qed.
Print Assumptions C19_interceptor_is_per_stream_recorder.
