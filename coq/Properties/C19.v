(* C19 - Stream statistics equal a recount of the observed traffic.
   Statements only; proofs are in Proofs/StatsProofs.v.  (work in progress) *)
From IV Require Import Base.Word Model.Unwrapper Model.Ntp Model.StatsRecorder Spec.StatsSpec Proofs.StatsProofs.

Section C19.
  Context {F : Type} (fzero : F) (k_units : Z -> Z -> Z) (k_jitter : Z -> F -> Z -> F)
          (k_rjitter : Z -> Z -> F) (k_frac : Z -> F) (k_delay : Z -> Z) (k_ntpfrac : Z -> Z).
  Notation run := (run fzero k_units k_jitter k_rjitter k_frac k_delay k_ntpfrac).

  Theorem C19_outbound_counts : forall ssrc rate evs,
    let b := sb (run ssrc rate evs) in
    o_sent b = spec_out_sent ssrc evs /\ o_bytes b = spec_out_bytes ssrc evs /\ o_hdr b = spec_out_hdr ssrc evs.
  Proof. intros ssrc rate evs. pose proof (invB_run fzero k_units k_jitter k_rjitter k_frac k_delay k_ntpfrac ssrc rate evs) as H. unfold invB in H. tauto. Qed.
End C19.
Print Assumptions C19_outbound_counts.
