(* C17, deepening round - statements only.
   Pacers WITH Close: pcs/pcstep (pkg/pacing/interceptor.go: the two atomic steps of Write with the racing select,
   the loop's receive / tick / exit, Close = close(i.closed) then wg.Wait()) and lcs/lcstep
   (pkg/gcc/leaky_bucket_pacer.go: Write = done-check then PushBack under qLock; Run = tick start, pop under the
   lock, send outside it, tick end, exit only at the select; Close = close(p.done) then wg.Wait()).
   `pre` = the pacing Write checks i.closed before it copies and selects (true: repaired code, false: before). *)
From IV Require Import Base.Word Model.PacerQueue Proofs.PacerProofs Proofs.PacerCloseProofs Proofs.PacerCloseMore.

(* ---------------------------------------------------------------------------------------------- *)
(* 1. FIFO / exactly once survives Close, racing writes and the loop exit, in every interleaving    *)
(* ---------------------------------------------------------------------------------------------- *)
Theorem C17b_pacing_fifo_with_close : forall pre rate burst t0 ops,
  let s := pcrun pre (pcinit rate burst t0) ops in
  pc_delivered s ++ pc_local s ++ pc_chan s = pc_accepted s.
Proof. exact pc_fifo. Qed.
Print Assumptions C17b_pacing_fifo_with_close.

Theorem C17b_leaky_fifo_with_close : forall known ops,
  let s := lcrun (lcinit known) ops in
  map fst (lc_done s) ++ opt_list (lc_inflight s) ++ lc_queue s = lc_accepted s.
Proof. exact lc_fifo. Qed.
Print Assumptions C17b_leaky_fifo_with_close.

(* "accepted" is exactly the Write calls that returned no error, in completion (= channel / queue) order *)
Theorem C17b_pacing_accepted_is_write_results : forall pre rate burst t0 ops,
  let s := pcrun pre (pcinit rate burst t0) ops in
  pc_accepted s = accepted_of (pc_results s).
Proof. exact pc_accepted_results. Qed.
Print Assumptions C17b_pacing_accepted_is_write_results.

Theorem C17b_leaky_accepted_is_write_results : forall known ops,
  let s := lcrun (lcinit known) ops in
  lc_accepted s = accepted_of (lc_results s).
Proof. exact lc_accepted_results. Qed.
Print Assumptions C17b_leaky_accepted_is_write_results.

(* ---------------------------------------------------------------------------------------------- *)
(* 2. Close                                                                                         *)
(* ---------------------------------------------------------------------------------------------- *)
(* Close returns only after the loop goroutine has exited (both pacers); for the leaky bucket the loop exits
   only between ticks, so no packet is popped-but-unwritten when Close returns *)
Theorem C17b_pacing_close_returns_after_loop_exit : forall pre rate burst t0 ops,
  let s := pcrun pre (pcinit rate burst t0) ops in
  pc_returned s = true -> pc_exited s = true /\ pc_closed s = true.
Proof. exact pc_returned_exited. Qed.
Print Assumptions C17b_pacing_close_returns_after_loop_exit.

Theorem C17b_leaky_close_returns_quiescent : forall known ops,
  let s := lcrun (lcinit known) ops in
  lc_returned s = true -> lc_exited s = true /\ lc_closed s = true /\ lc_intick s = false /\ lc_inflight s = None.
Proof. exact lc_returned_quiescent. Qed.
Print Assumptions C17b_leaky_close_returns_quiescent.

(* after Close has returned NOTHING more is delivered (or charged), whatever happens afterwards: late writes,
   ticks, rate changes, more Close calls.  Between the beginning of Close and its return the loop may still deliver
   (the select of a closed loop picks at random; the leaky bucket finishes its tick): that is exactly what is
   allowed, and it is covered by theorem 1. *)
Theorem C17b_pacing_nothing_delivered_after_close_returned : forall pre rate burst t0 ops1 ops2,
  let s1 := pcrun pre (pcinit rate burst t0) ops1 in
  pc_returned s1 = true ->
  pc_delivered (pcrun pre (pcinit rate burst t0) (ops1 ++ ops2)) = pc_delivered s1 /\
  pc_bits (pcrun pre (pcinit rate burst t0) (ops1 ++ ops2)) = pc_bits s1.
Proof. exact pc_after_close_returned. Qed.
Print Assumptions C17b_pacing_nothing_delivered_after_close_returned.

Theorem C17b_leaky_nothing_delivered_after_close_returned : forall known ops1 ops2,
  let s1 := lcrun (lcinit known) ops1 in
  lc_returned s1 = true ->
  lc_done (lcrun (lcinit known) (ops1 ++ ops2)) = lc_done s1 /\ lc_inflight s1 = None.
Proof. exact lc_after_close_returned. Qed.
Print Assumptions C17b_leaky_nothing_delivered_after_close_returned.

(* the same from the moment the loop has exited (which Close awaits): delivered, local queue and bits are frozen *)
Theorem C17b_pacing_frozen_after_loop_exit : forall pre s ops, pc_exited s = true ->
  pc_exited (pcrun pre s ops) = true /\ pc_delivered (pcrun pre s ops) = pc_delivered s /\
  pc_local (pcrun pre s ops) = pc_local s /\ pc_bits (pcrun pre s ops) = pc_bits s.
Proof. exact pcrun_exited. Qed.
Print Assumptions C17b_pacing_frozen_after_loop_exit.

(* Close waits for a send in flight (leaky bucket): while a packet is popped and not yet written neither the loop
   can exit nor Close return, and the write still happens *)
Theorem C17b_leaky_close_waits_for_inflight_send : forall known ops p,
  let s := lcrun (lcinit known) ops in
  lc_inflight s = Some p ->
  lc_returned s = false /\ lc_exited s = false /\
  lc_returned (lcstep s KCloseReturn) = false /\ lc_exited (lcstep s KExit) = false /\
  forall n, map fst (lc_done (lcstep s (KSend n))) = map fst (lc_done s) ++ [p].
Proof. exact lc_close_waits_for_inflight. Qed.
Print Assumptions C17b_leaky_close_waits_for_inflight_send.

(* ---------------------------------------------------------------------------------------------- *)
(* 3. Write against Close                                                                           *)
(* ---------------------------------------------------------------------------------------------- *)
(* open pacer: no randomness - a Write is accepted (pacing: unless the channel holds 10^6 packets) *)
Theorem C17b_pacing_write_while_open_accepted : forall pre s w p pick,
  pc_closed s = false -> pend_find w (pc_pending s) = None ->
  let s' := pcstep pre (pcstep pre s (CWBegin w p)) (CWSelect w pick) in
  if Z.of_nat (length (pc_chan s)) <? QUEUE_CAP
  then pc_accepted s' = pc_accepted s ++ [p] /\ pc_chan s' = pc_chan s ++ [p] /\ pc_results s' = pc_results s ++ [(w, p, WAccepted)]
  else pc_accepted s' = pc_accepted s /\ pc_results s' = pc_results s ++ [(w, p, WOverflow)].
Proof. exact pc_write_open. Qed.
Print Assumptions C17b_pacing_write_while_open_accepted.

Theorem C17b_leaky_write_while_open_accepted : forall s w p,
  lc_closed s = false -> pend_find w (lc_pending s) = None ->
  let s' := lcstep (lcstep s (KWBegin w p)) (KWPush w) in
  lc_accepted s' = lc_accepted s ++ [p] /\ lc_queue s' = lc_queue s ++ [p] /\ lc_results s' = lc_results s ++ [(w, p, WAccepted)].
Proof. exact lc_write_open. Qed.
Print Assumptions C17b_leaky_write_while_open_accepted.

(* a Write that BEGINS once the closed channel is closed is rejected and leaves no trace (repaired pacing code;
   leaky bucket) *)
Theorem C17b_pacing_write_after_close_rejected : forall s w p,
  pc_closed s = true -> pend_find w (pc_pending s) = None ->
  let s' := pcstep true s (CWBegin w p) in
  pc_results s' = pc_results s ++ [(w, p, WClosed)] /\ pc_accepted s' = pc_accepted s /\
  pc_chan s' = pc_chan s /\ pc_pending s' = pc_pending s.
Proof. exact pc_write_after_close. Qed.
Print Assumptions C17b_pacing_write_after_close_rejected.

Theorem C17b_leaky_write_after_close_rejected : forall s w p,
  lc_closed s = true -> pend_find w (lc_pending s) = None ->
  let s' := lcstep s (KWBegin w p) in
  lc_results s' = lc_results s ++ [(w, p, WClosed)] /\ lc_accepted s' = lc_accepted s /\
  lc_queue s' = lc_queue s /\ lc_pending s' = lc_pending s.
Proof. exact lc_write_after_close. Qed.
Print Assumptions C17b_leaky_write_after_close_rejected.

(* a Write CONCURRENT with Close may go either way; but from the moment Close has begun, the only packets that can
   still be accepted are those of writers that were already inside Write at that moment (at most one per writer
   goroutine); with no writer inside Write, the accepted history is final *)
Theorem C17b_pacing_only_racing_writes_accepted_after_close : forall s ops, pc_closed s = true ->
  exists l, pc_accepted (pcrun true s ops) = pc_accepted s ++ l /\ incl l (map snd (pc_pending s)).
Proof. exact pc_accepted_after_close. Qed.
Print Assumptions C17b_pacing_only_racing_writes_accepted_after_close.

Theorem C17b_leaky_only_racing_writes_accepted_after_close : forall s ops, lc_closed s = true ->
  exists l, lc_accepted (lcrun s ops) = lc_accepted s ++ l /\ incl l (map snd (lc_pending s)).
Proof. exact lc_accepted_after_close. Qed.
Print Assumptions C17b_leaky_only_racing_writes_accepted_after_close.

Theorem C17b_pacing_accepted_final_after_close : forall s ops, pc_closed s = true -> pc_pending s = [] ->
  pc_accepted (pcrun true s ops) = pc_accepted s.
Proof. exact pc_accepted_frozen. Qed.
Print Assumptions C17b_pacing_accepted_final_after_close.

Theorem C17b_leaky_accepted_final_after_close : forall s ops, lc_closed s = true -> lc_pending s = [] ->
  lc_accepted (lcrun s ops) = lc_accepted s.
Proof. exact lc_accepted_frozen. Qed.
Print Assumptions C17b_leaky_accepted_final_after_close.

(* both outcomes of the race are real (non-vacuity of "may go either way"): same schedule, other pick *)
Example C17b_pacing_race_both_outcomes : forall p,
  let s pick := pcrun true (pcinit 1000000 12000 0) [CWBegin 0 p; CCloseBegin; CWSelect 0 pick] in
  pc_results (s true) = [(0, p, WAccepted)] /\ pc_results (s false) = [(0, p, WClosed)].
Proof. exact pc_race_both. Qed.
Print Assumptions C17b_pacing_race_both_outcomes.

(* FINDING (code before the repair, pre = false): a Write begun after Close RETURNED can be accepted (the select
   has both cases ready) - and by the theorems above the packet is then never delivered *)
Theorem C17b_pacing_unrepaired_accepts_after_close_refuted : forall rate burst t0 p ops,
  let s := pcrun false (pcinit rate burst t0) [CCloseBegin; CExit; CCloseReturn; CWBegin 0 p; CWSelect 0 true] in
  pc_returned s = true /\ pc_results s = [(0, p, WAccepted)] /\ pc_accepted s = [p] /\
  pc_delivered (pcrun false s ops) = [].
Proof. exact pc_unrepaired_accepts_after_close. Qed.
Print Assumptions C17b_pacing_unrepaired_accepts_after_close_refuted.

(* ---------------------------------------------------------------------------------------------- *)
(* 4. "for as long as the pacer is open"                                                            *)
(* ---------------------------------------------------------------------------------------------- *)
(* what was handed to the next writer stays handed, in the same order: delivered only grows at its end *)
Theorem C17b_pacing_delivered_only_grows : forall pre s ops,
  exists l, pc_delivered (pcrun pre s ops) = pc_delivered s ++ l.
Proof. exact pcrun_delivered_extends. Qed.
Print Assumptions C17b_pacing_delivered_only_grows.

(* while the loop has not exited its steps are enabled and make progress: a receive moves the oldest packet of the
   channel to the local queue, and a tick hands over (at least) the head of the local queue as soon as the budget
   covers it.  So as long as the pacer is open the only thing between an accepted packet and its writer is the
   rate (and the oversize head of the known finding); once the loop has exited (it does so only after Close began)
   the packets still in local ++ chan are abandoned - exactly those, by theorem 1. *)
Theorem C17b_pacing_open_tick_delivers_head : forall pre s now p q,
  pc_exited s = false -> pc_local s = p :: q -> 8 * plen p * NS < tb_budget (pc_tb s) now ->
  exists l, pc_delivered (pcstep pre s (CTick now)) = pc_delivered s ++ p :: l.
Proof. exact pc_tick_progress. Qed.
Print Assumptions C17b_pacing_open_tick_delivers_head.

Theorem C17b_pacing_open_recv_moves_oldest : forall pre s p tl,
  pc_exited s = false -> pc_chan s = p :: tl ->
  pc_local (pcstep pre s CRecv) = pc_local s ++ [p] /\ pc_chan (pcstep pre s CRecv) = tl.
Proof. exact pc_recv_progress. Qed.
Print Assumptions C17b_pacing_open_recv_moves_oldest.

(* STRONGEST FORM: whatever happened before (even a Close that has begun), as long as the loop has not exited its
   own steps alone - channel receives and ticks - can hand over EVERY accepted packet, provided the rate is positive
   and no queued packet is oversize (8*len < burst: the known head-of-line finding is the only other obstacle).
   For the leaky bucket no side condition is needed: Run's own steps take every accepted packet off the queue and
   hand it to its stream's writer (or drop it when its SSRC has no writer). *)
Theorem C17b_pacing_open_pacer_can_drain : forall pre rate burst t0 ops0,
  let s := pcrun pre (pcinit rate burst t0) ops0 in
  pc_exited s = false -> tb_ok (pc_tb s) -> 1 <= tb_rate (pc_tb s) ->
  small (tb_burst (pc_tb s)) (pc_local s ++ pc_chan s) ->
  exists ops, Forall loop_op ops /\
    pc_delivered (pcrun pre s ops) = pc_accepted s /\ pc_accepted (pcrun pre s ops) = pc_accepted s.
Proof. exact pc_open_can_drain. Qed.
Print Assumptions C17b_pacing_open_pacer_can_drain.

Theorem C17b_leaky_open_pacer_can_drain : forall known ops0,
  let s := lcrun (lcinit known) ops0 in
  lc_exited s = false ->
  exists ops, Forall lloop_op ops /\
    map fst (lc_done (lcrun s ops)) = lc_accepted s /\ lc_accepted (lcrun s ops) = lc_accepted s.
Proof. exact lc_open_can_drain. Qed.
Print Assumptions C17b_leaky_open_pacer_can_drain.

(* leaky bucket with Close: when every stream is added before it is written, nothing is dropped - delivered is a
   prefix of accepted *)
Theorem C17b_leaky_delivered_prefix_with_close : forall known ops, lc_ops_ok known ops ->
  let s := lcrun (lcinit known) ops in
  lc_delivered s ++ opt_list (lc_inflight s) ++ lc_queue s = lc_accepted s.
Proof. exact lc_delivered_fifo. Qed.
Print Assumptions C17b_leaky_delivered_prefix_with_close.

(* the LTS of the first round (the C17_ theorems) is the part of the LTS with Close in which Write is atomic and the
   loop never exits: every run of it is a run of the new LTS with the same observables *)
Theorem C17b_pacing_first_round_lts_embeds : forall rate burst t0 ops,
  let a := prun (pinit rate burst t0) ops in
  let c := pcrun true (pcinit rate burst t0) (flat_map embed ops) in
  pc_delivered c = ps_delivered a /\ pc_accepted c = ps_accepted a /\ pc_local c = ps_local a /\
  pc_chan c = ps_chan a /\ pc_bits c = ps_bits a /\ pc_closed c = ps_closed a.
Proof. exact old_lts_embeds. Qed.
Print Assumptions C17b_pacing_first_round_lts_embeds.

(* ---------------------------------------------------------------------------------------------- *)
(* 5. per stream, per writer goroutine                                                              *)
(* ---------------------------------------------------------------------------------------------- *)
(* for every stream: the packets handed to that stream's writer, followed by that stream's packets still queued,
   are the packets accepted for that stream, in order - i.e. a prefix, never reordered within the stream *)
Theorem C17b_pacing_per_stream_prefix : forall rate burst t0 ops w,
  let s := prun (pinit rate burst t0) ops in
  on_stream w (ps_delivered s) ++ on_stream w (ps_local s ++ ps_chan s) = on_stream w (ps_accepted s).
Proof. exact pacing_stream_prefix. Qed.
Print Assumptions C17b_pacing_per_stream_prefix.

Theorem C17b_leaky_per_stream_prefix : forall known ops w,
  let s := lrun (linit known) ops in
  on_stream w (map fst (ls_done s)) ++ on_stream w (opt_list (ls_inflight s) ++ ls_queue s) = on_stream w (ls_accepted s).
Proof. exact leaky_stream_prefix. Qed.
Print Assumptions C17b_leaky_per_stream_prefix.

Theorem C17b_pacing_per_stream_prefix_with_close : forall pre rate burst t0 ops w,
  let s := pcrun pre (pcinit rate burst t0) ops in
  on_stream w (pc_delivered s) ++ on_stream w (pc_local s ++ pc_chan s) = on_stream w (pc_accepted s).
Proof. exact pc_stream_prefix. Qed.
Print Assumptions C17b_pacing_per_stream_prefix_with_close.

Theorem C17b_leaky_per_stream_prefix_with_close : forall known ops w,
  let s := lcrun (lcinit known) ops in
  on_stream w (map fst (lc_done s)) ++ on_stream w (opt_list (lc_inflight s) ++ lc_queue s) = on_stream w (lc_accepted s).
Proof. exact lc_stream_prefix. Qed.
Print Assumptions C17b_leaky_per_stream_prefix_with_close.

(* concurrent writers: the acceptance order IS the channel/queue order (theorem 1 + "accepted = successful
   results in completion order"); and for every writer goroutine w its completed Write calls followed by its call
   in progress are its calls in program order - no goroutine's packets overtake each other *)
Theorem C17b_pacing_per_writer_order : forall pre rate burst t0 ops w,
  let s := pcrun pre (pcinit rate burst t0) ops in
  proj_w w (map fst (pc_results s)) ++ proj_w w (pc_pending s) = proj_w w (pc_begun s).
Proof. exact pc_writer_order. Qed.
Print Assumptions C17b_pacing_per_writer_order.

Theorem C17b_leaky_per_writer_order : forall known ops w,
  let s := lcrun (lcinit known) ops in
  proj_w w (map fst (lc_results s)) ++ proj_w w (lc_pending s) = proj_w w (lc_begun s).
Proof. exact lc_writer_order. Qed.
Print Assumptions C17b_leaky_per_writer_order.

(* ---------------------------------------------------------------------------------------------- *)
(* 6. the tolerance of the envelope oracle on the REAL limiter, from first principles               *)
(* ---------------------------------------------------------------------------------------------- *)
From IV Require Import Check.C17Check Check.C17bCheck Proofs.PacerEnvelopeMore Proofs.PacerEnvelopeTight Proofs.PacerFloatEnvelope.
From Coq Require Import QArith.

(* (B) clock reads.  [stamps_ok slack B M evs]: every AllowN time stamp is at most [slack] older than the largest
   stamp seen so far (a ticker stamp consumed late), SetRate stamps (time.Now()) are not older; bursts <= B.
   For EVERY such call sequence the exact integer limiter, answering the calls itself ([tb_trace]), is accepted by
   the oracle [env_ok slack] that the check applies to the recorded calls of the real limiter: the oracle's form
   (bill rate * (max 0 (t - M) + slack) per call, + 1 bit) is the proved envelope under this clock model. *)
Theorem C17b_envelope_oracle_sound_for_exact_limiter : forall slack rate burst t0 B evs,
  (0 <= slack -> 0 <= rate -> 0 <= burst <= B -> stamps_ok slack B t0 evs ->
   env_ok slack rate B t0 0 0 (tb_trace (mkTB rate burst (burst * NS) t0) evs) = true)%Z.
Proof. exact env_ok_sound. Qed.
Print Assumptions C17b_envelope_oracle_sound_for_exact_limiter.

(* the slack is needed: a granted AllowN whose stamp is 2 ms older than the previous one makes the exact limiter
   earn those 2 ms twice; with slack 0 the oracle rejects that (correct) run, with 2 ms it accepts *)
Theorem C17b_envelope_slack_needed :
  let evs := [(0, 0, 11000, 0); (0, 4000000, 4000, 0); (0, 2000000, 1000, 0); (0, 4000000, 2000, 0)]%Z in
  let tr := tb_trace (mkTB 1000000 12000 (12000 * NS) 0) evs in
  env_ok 0 1000000 12000 0 0 0 tr = false /\ env_ok 2000000 1000000 12000 0 0 0 tr = true.
Proof. exact env_ok_slack_needed. Qed.
Print Assumptions C17b_envelope_slack_needed.

(* the TIGHT oracle [env_ok2] (check env_tight_failures) bills a call only for what the limiter can really earn
   twice - the backward step max 0 (M - t) of its stamp - and needs NO assumption on the stamps: the exact limiter is
   accepted on every call sequence; and it is tight (one more 1000-bit packet at the same instant is rejected) *)
Theorem C17b_envelope_tight_oracle_sound_for_exact_limiter : forall sset rate burst t0 B evs,
  (0 <= sset -> 0 <= rate -> 0 <= burst <= B -> calls_ok B evs ->
   env_ok2 sset rate B t0 0 0 (tb_trace (mkTB rate burst (burst * NS) t0) evs) = true)%Z.
Proof. exact env_ok2_sound. Qed.
Print Assumptions C17b_envelope_tight_oracle_sound_for_exact_limiter.

Theorem C17b_envelope_tight_oracle_is_tight :
  let evs := [(0, 0, 11000, 0); (0, 4000000, 4000, 0); (0, 2000000, 1000, 0); (0, 4000000, 2000, 0)]%Z in
  let tr := tb_trace (mkTB 1000000 12000 (12000 * NS) 0) evs in
  env_ok2 0 1000000 12000 0 0 0 tr = true /\
  env_ok2 0 1000000 12000 0 0 0 (tr ++ [(0, 4000000, 1000, 1)]%Z) = false.
Proof. exact env_ok2_tight. Qed.
Print Assumptions C17b_envelope_tight_oracle_is_tight.

(* (A) float64 arithmetic.  A token bucket computing like x/time/rate (seconds = fl(sec + fl(nsec/1e9)),
   delta = fl(seconds * rate), tokens = min(burst, fl(tokens + delta)), tokens = fl(tokens - n)) with ANY rounding
   operator of relative error <= u (monotone, exact on 0 and on the burst) and any grant decisions that keep the
   tokens >= -g: after k grants, over an elapsed time of (l2 - t0) ns,
        bits granted <= burst + (1+u)^3 * rate * elapsed + k * 2u(burst + 2g) + g *)
Theorem C17b_envelope_rounded_limiter : forall rnd u, rounding_model rnd u ->
  forall rate burst g, (0 <= rate -> 0 <= burst -> 0 <= g -> rnd burst == burst ->
  forall evs t0, fok rnd rate burst g burst t0 evs ->
  let '(_, l2, bits, k) := frun rnd rate burst burst t0 evs in
  bits <= burst + U3 u * (rate * (inject_Z (l2 - t0) / GIGA)) + inject_Z (Z.of_nat k) * c_ev u burst g + g)%Q.
Proof. exact rounded_envelope_stmt. Qed.
Print Assumptions C17b_envelope_rounded_limiter.

(* the earned tokens of one step carry three roundings *)
Theorem C17b_envelope_rounded_delta : forall rnd u, rounding_model rnd u ->
  forall rate, (0 <= rate)%Q -> forall d, (0 <= d)%Z ->
  (0 <= delta rnd rate d /\ delta rnd rate d <= U3 u * (rate * (inject_Z d / GIGA)))%Q.
Proof. exact rounded_delta_stmt. Qed.
Print Assumptions C17b_envelope_rounded_delta.

(* non-vacuity of the rounding model, and the numbers: with u = 2^-53, burst 10^8 bit, g = 0.1 bit (rate <= 10^8
   bit/s), 10^6 grants and rate * elapsed = 10^13 bit the float limiter stays within 0.13 bit of the exact
   envelope: the oracle's "+ 1 bit" *)
Theorem C17b_envelope_rounding_model_nonvacuous : rounding_model (fun x => x) 0.
Proof. exact rounding_model_exact. Qed.
Print Assumptions C17b_envelope_rounding_model_nonvacuous.

Theorem C17b_envelope_float_tolerance_numbers :
  ((U3 u_binary64 - 1) * 10000000000000 + 1000000 * c_ev u_binary64 100000000 (1 # 10) + (1 # 10) < 13 # 100)%Q.
Proof. exact float_tolerance_numbers. Qed.
Print Assumptions C17b_envelope_float_tolerance_numbers.
