(* C11 - Lifecycle, deepening round.  Statements only.
   Model: Model/LifecycleX.v - the lifecycle LTS of Model/Lifecycle.v with two more feature bits
     x_close_fast    Close returns at once, without wg.Wait(), when the per-stream table is empty
     x_exit_on_werr  a loop goroutine returns after a failed write to the next writer
   and the label XFail i (the next write of goroutine i fails).  Proofs: Proofs/LifecycleXProofs.v.
   Every theorem quantifies over ALL traces of the extended LTS (any threads, interleavings, SSRCs, length).
   PARTIAL (as in C11.v): the feature records are hand-assigned; the gated runs of the harness (set c11g,
   Check/C11bCheck.v) compare the records under the worst-case schedule of Close: a write of a goroutine of
   the interceptor is held by the next writer while streams are unbound and Close is called (twice). *)
From IV Require Import Base.Word Model.Lifecycle Proofs.LifecycleProofs Model.LifecycleX Proofs.LifecycleXProofs
  Check.C11Check Check.C11bCheck Proofs.LifecycleGateProofs Model.ChainClose Proofs.ChainCloseProofs.

(* with both bits off the extended system is the base system: every theorem of C11.v holds for it *)
Theorem C11b_plain_is_base : forall xc, xsafe xc = true ->
  forall tr s, xrun xc s tr = run (x_base xc) s (map erase tr).
Proof. exact xrun_refines. Qed.
Print Assumptions C11b_plain_is_base.

(* Close returns only after every goroutine the interceptor started has finished and nothing is written
   afterwards, WHATEVER the per-stream table holds (all streams unbound, table taken by an earlier Close):
   for every record whose Close waits for its WaitGroup and has no table-dependent fast path.  Loops that
   give up after a write error do not matter. *)
Theorem C11b_close_waits_any_table_partial : forall xc tr s,
  close_safe (x_base xc) = true -> x_close_fast xc = false ->
  xrun xc (xinit xc) tr = Some s -> (close_ret s = true -> loops s = []) /\ late_close s = 0%nat.
Proof. exact x_close_waits. Qed.
Print Assumptions C11b_close_waits_any_table_partial.

(* the set of goroutines a Close waits for does not depend on the per-stream table: in any state, replacing
   the table by any other changes neither whether the Close parks, nor whether it has returned, nor the
   goroutines, nor who is parked *)
Theorem C11b_close_ignores_table : forall xc s t tbl, x_close_fast xc = false ->
  close_view t (xstep xc (set_table s tbl) (XL (Call t OClose))) = close_view t (xstep xc s (XL (Call t OClose))).
Proof. exact close_ignores_table. Qed.
Print Assumptions C11b_close_ignores_table.

(* seeded change (nack responder Close with a "nothing to release" fast path): the outcome of Close
   depends on the table ... *)
Theorem C11b_close_fast_path_depends_on_table_refuted : exists s t tbl,
  let xc := nack_responder_fastclose_xcfg in
  close_view t (xstep xc (set_table s tbl) (XL (Call t OClose))) <> close_view t (xstep xc s (XL (Call t OClose))).
Proof. exact fastclose_depends_on_table. Qed.
Print Assumptions C11b_close_fast_path_depends_on_table_refuted.

(* ... Bind, traffic, a NACK starts a resend goroutine, every stream is unbound, Close returns at once while
   the goroutine is alive, and its write follows the return of Close *)
Theorem C11b_close_fast_path_refuted : exists tr s s',
  let xc := nack_responder_fastclose_xcfg in
  xrun xc (xinit xc) tr = Some s /\ close_ret s = true /\ loops s <> [] /\
  xstep xc s (XL (LEmit 1)) = Some s' /\ late_close s' <> 0%nat.
Proof. exact fastclose_unbind_all_refuted. Qed.
Print Assumptions C11b_close_fast_path_refuted.

(* ... and a second Close returns while the first is still parked in wg.Wait and the goroutine is alive *)
Theorem C11b_second_close_fast_path_refuted : exists tr s,
  let xc := nack_responder_fastclose_xcfg in
  xrun xc (xinit xc) tr = Some s /\ close_ret s = true /\ loops s <> [] /\ bfind 0 (blocked s) = Some WWg.
Proof. exact fastclose_second_close_refuted. Qed.
Print Assumptions C11b_second_close_fast_path_refuted.

(* a loop goroutine that is alive stays alive as long as the interceptor is open - for every record whose
   loops do not give up after a write error (x_exit_on_werr = false), whatever else the record says *)
Theorem C11b_loop_survives_partial : forall xc, x_exit_on_werr xc = false ->
  forall tr s s', alive_loop s -> xrun xc s tr = Some s' -> closed s' = false -> alive_loop s'.
Proof. exact x_loop_survives. Qed.
Print Assumptions C11b_loop_survives_partial.

(* BindRTCPWriter on an open interceptor starts one *)
Theorem C11b_bindw_starts_loop_partial : forall xc tr s t s', f_loop (x_base xc) = LoopOnBindW ->
  xrun xc (xinit xc) tr = Some s -> closed s = false ->
  xstep xc s (XL (Call t OBindW)) = Some s' -> alive_loop s'.
Proof. exact bindw_starts_loop. Qed.
Print Assumptions C11b_bindw_starts_loop_partial.

(* no caller is stranded on an interceptor that is NOT closed: once BindRTCPWriter has been called, in every
   reachable open state every Read/Write parked in the hand-off (select-on-close send to the loop) has a
   continuation WITHOUT any Close after which it has returned and the interceptor is still open *)
Theorem C11b_no_open_strand_partial : forall xc tr1 t0 tr2 s u x b fl,
  x_exit_on_werr xc = false -> f_chan (x_base xc) = ChUnbufSel -> f_loop (x_base xc) = LoopOnBindW ->
  xrun xc (xinit xc) (tr1 ++ XL (Call t0 OBindW) :: tr2) = Some s -> closed s = false ->
  bfind u (blocked s) = Some (WSend x b fl) ->
  exists cont s', xrun xc s cont = Some s' /\ bfind u (blocked s') = None /\ closed s' = false /\
                  forallb no_close_label cont = true.
Proof. exact x_no_open_strand. Qed.
Print Assumptions C11b_no_open_strand_partial.

(* the interceptors with such a hand-off (twcc, rfc8888 after its fix; packetdump's loop is started by the
   constructor) *)
Theorem C11b_hand_off_instances :
  f_chan twcc_sender_cfg = ChUnbufSel /\ f_chan rfc8888_cfg = ChUnbufSel /\ f_chan packetdump_cfg = ChUnbufSel.
Proof. exact loop_writers_chan_instances. Qed.
Print Assumptions C11b_hand_off_instances.

(* the other interceptors whose loop writes RTCP (nack generator, report receiver/sender, intervalpli) have no
   blocking hand-off: a packet Read/Write never parks there, in any state, whatever the extra bits say - a
   loop that gave up after a write error cannot strand a caller (it only stops reporting, which C11 does not
   forbid) *)
Theorem C11b_traffic_never_parks_without_hand_off : forall xc s t x s', no_blocking_hand_off (x_base xc) = true ->
  xstep xc s (XL (Call t (OTraffic x))) = Some s' -> bfind t (blocked s') = None.
Proof. exact x_traffic_never_parks. Qed.
Print Assumptions C11b_traffic_never_parks_without_hand_off.

Theorem C11b_no_blocking_hand_off_instances :
  forallb no_blocking_hand_off [nack_generator_cfg; nack_responder_cfg; report_receiver_cfg; report_sender_cfg;
    intervalpli_cfg; stats_cfg; pacing_cfg; gcc_cfg; jitterbuffer_cfg; flexfec_cfg; chain_cfg] = true.
Proof. exact no_blocking_hand_off_instances. Qed.
Print Assumptions C11b_no_blocking_hand_off_instances.

(* seeded change (twcc loop returns after a failed feedback write): BindRTCPWriter, a packet, the feedback
   write fails, the loop returns; the next Read parks although the interceptor is open and stays parked in
   EVERY continuation that contains neither a Close nor another BindRTCPWriter (invariant, not search) *)
Theorem C11b_loop_exits_on_write_error_refuted : exists tr s t,
  let xc := twcc_exit_on_werr_xcfg in
  xrun xc (xinit xc) tr = Some s /\ In (XL (Call 0 OBindW)) tr /\ closed s = false /\
  bfind t (blocked s) <> None /\
  forall cont s', forallb quiet_label cont = true -> xrun xc s cont = Some s' -> bfind t (blocked s') <> None.
Proof. exact twcc_exit_on_werr_stranded. Qed.
Print Assumptions C11b_loop_exits_on_write_error_refuted.

(* non-vacuity: the same trace (with the failing write) on the record of /repo leaves nobody parked *)
Example C11b_twcc_plain_not_stranded : exists s,
  let xc := plain twcc_sender_cfg in
  xrun xc (xinit xc) [XL (Call 0 OBindW); XL (Call 0 (OBind 1)); XL (Call 0 (OTraffic 1)); XL (LTick 1); XFail 1;
                      XL (Call 1 (OTraffic 1))] = Some s /\ blocked s = [] /\ closed s = false.
Proof. exact twcc_plain_not_stranded. Qed.
Print Assumptions C11b_twcc_plain_not_stranded.

(* new finding of this round (fixed by a fix: commit): gcc - cc.Interceptor had no UnbindLocalStream, the
   pacer kept the writer of an unbound stream for ever: the per-stream state is NOT released by Unbind.
   The record gcc_cfg of Model/Lifecycle.v is the one after the fix (covered by C11_unbind_releases_partial). *)
Theorem C11b_gcc_unbind_keeps_writer_refuted : exists tr s,
  run gcc_nounbind_cfg (init gcc_nounbind_cfg) tr = Some s /\ In 1 (dead s) /\ tfind 1 (table s) <> None.
Proof. exact gcc_nounbind_keeps_entry. Qed.
Print Assumptions C11b_gcc_unbind_keeps_writer_refuted.

Theorem C11b_gcc_unbind_safe_after_fix : unbind_safe gcc_cfg = true /\ unbind_safe gcc_nounbind_cfg = false.
Proof. exact gcc_unbind_safe. Qed.
Print Assumptions C11b_gcc_unbind_safe_after_fix.

(* the oracle of the gated runs reports no code exactly when the property text holds on the observation *)
Theorem C11b_gate_oracle_sound : forall obs, gate_codes obs = [] <-> gate_ok obs.
Proof. exact gate_codes_nil_iff. Qed.
Print Assumptions C11b_gate_oracle_sound.

(* ... and the "stranded on an open interceptor" clause for the sequential scripts *)
Theorem C11b_open_strand_oracle_sound : forall ops bw cl obs,
  strand_codes bw cl ops obs = [] <-> open_ok bw cl ops obs.
Proof. exact strand_codes_nil_iff. Qed.
Print Assumptions C11b_open_strand_oracle_sound.

(* the held schedule of the gated runs on the 14 records of /repo: every mode satisfies the oracle ... *)
Theorem C11b_gate_model_clean_instances :
  forallb (fun iid => forallb (fun mode => gate_ok_b (gate_model_h (holdable_of iid) (plain (cfg_of iid)) mode)) [0; 1; 2; 3])
          [0; 1; 2; 3; 4; 5; 6; 7; 8; 9; 10; 11; 12; 13] = true.
Proof. exact gate_model_clean_instances. Qed.
Print Assumptions C11b_gate_model_clean_instances.

(* ... and on the record with the Close fast path it predicts what the gated runs observe on the seeded
   tree: plain Close waits; after Unbind of every stream Close returns while the resend is inside the writer,
   the write completes after the return, a goroutine is alive at the return; the second Close does the same *)
Example C11b_gate_model_fastclose :
  map (gate_model nack_responder_fastclose_xcfg) [0; 1; 2; 3] =
  [[1; 0; 0; 0; 0; 0; 0; 0; 0; 0]; [1; 1; 0; 1; 0; 0; 0; 1; 0; 0]; [1; 0; 1; 1; 0; 0; 0; 1; 0; 0]; [1; 1; 1; 1; 0; 0; 0; 1; 0; 0]].
Proof. exact gate_model_fastclose. Qed.
Print Assumptions C11b_gate_model_fastclose.

(* ---- Chain.Close (Model/ChainClose.v): a chain is the list of its members' LTSs, each with a bit
   "its Close returns an error" ---- *)

(* chain.go Close: every member receives exactly one Close and its close channel is closed afterwards,
   whichever members' Close returned an error *)
Theorem C11b_chain_close_closes_every_member : forall t ms,
  Forall2 (fun m m' => closed (m_st m') = true /\ m_closes m' = S (m_closes m) /\ m_cfg m' = m_cfg m)
          ms (chain_close_all t ms).
Proof. exact chain_close_all_closes. Qed.
Print Assumptions C11b_chain_close_closes_every_member.

(* ... and the returned error holds the error of every member whose Close failed (errors.Is) *)
Theorem C11b_chain_close_keeps_every_error : forall ms k m,
  nth_error ms k = Some m -> m_fails m = true -> In k (chain_errs_all ms).
Proof. exact chain_errs_all_complete. Qed.
Print Assumptions C11b_chain_close_keeps_every_error.

(* seeded change (Chain.Close stops at the first member whose Close fails): Chain [mock whose Close fails;
   report receiver]: after Chain.Close returned the receiver has received no Close, its close channel is
   open, its loop ticks and writes a report; chain.go's loop closes it once *)
Theorem C11b_chain_close_stops_at_first_error_refuted : exists ms m' s',
  let after := chain_close_stop 0 ms in
  nth_error after 1 = Some m' /\ m_closes m' = 0%nat /\ closed (m_st m') = false /\
  run (m_cfg m') (m_st m') [LTick 1; LEmit 1] = Some s' /\ emitted s' = [1] /\
  (exists m2, nth_error (chain_close_all 0 ms) 1 = Some m2 /\ m_closes m2 = 1%nat /\ closed (m_st m2) = true).
Proof. exact chain_close_stop_refuted. Qed.
Print Assumptions C11b_chain_close_stops_at_first_error_refuted.

(* the oracle on the Close accounting of a chain run reports no code iff Chain.Close was called as often as the
   script says and every member received exactly that many Close calls and the errors were right *)
Theorem C11b_chain_close_oracle_sound : forall ops cobs,
  chain_close_codes ops cobs = [] <-> chain_close_ok ops cobs.
Proof. exact chain_close_codes_nil_iff. Qed.
Print Assumptions C11b_chain_close_oracle_sound.
