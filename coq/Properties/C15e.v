(* C15 (round 5) - "Nothing else in the header ... changes", also for packets that ALREADY
   carry an element under the negotiated transport-cc id (forwarded / re-sent packets):
   the element is replaced where it stands, no other element moves, the profile stays, and
   the marshalled header (Model.RtpMarshal = pion/rtp Header.Marshal, tied by the set c15wire)
   differs from the incoming one in nothing but the two value bytes. *)
From IV Require Import Base.Word Model.TwccHdrExt Model.RtpMarshal Proofs.TwccHdrExtProofs
  Check.C15Check Check.C15LifeCheck Check.C15WireCheck Proofs.TwccWireProofs.

(* SetExtension on a header that has an element under the id: replaced in place; flag, profile,
   fixed part and every other element, with its position, identical. *)
Theorem C15e_replaced_in_place : forall id p h h' q,
  h_ext h = true -> get_ext id (h_exts h) = Some q -> set_extension id p h = Some h' ->
  exists l1 l2, h_exts h = l1 ++ (id, q) :: l2 /\ get_ext id l1 = None /\
                h' = mkH (h_fixed h) true (h_profile h) (l1 ++ (id, p) :: l2).
Proof. exact set_extension_in_place. Qed.
Print Assumptions C15e_replaced_in_place.

(* ... and on a header without one: appended behind all existing elements, profile of an existing block kept. *)
Theorem C15e_appended_last : forall id p h h',
  get_ext id (h_exts h) = None -> set_extension id p h = Some h' ->
  h_fixed h' = h_fixed h /\ h_ext h' = true /\ h_exts h' = h_exts h ++ [(id, p)] /\
  (h_ext h = true -> h_profile h' = h_profile h).
Proof. exact set_extension_appends. Qed.
Print Assumptions C15e_appended_last.

(* Wire image: for every history of writes, from every counter value, every forwarded packet
   that came in with a 2-byte element under its stream's id (one- or two-byte profile) leaves
   with a marshalled header  pre ++ v ++ post  where the incoming one was  pre ++ q ++ post :
   same length, same bytes, except the two value bytes v (which are what the header then
   carries under the id). *)
Theorem C15e_wire_only_value_bytes_change : forall ops c,
  Forall2 (fun o r =>
    match snd o, r with
    | Some h, Forward h' =>
        h_ext h = true -> h_profile h = PROFILE_ONE \/ h_profile h = PROFILE_TWO ->
        forall q, get_ext (fst o) (h_exts h) = Some q -> length q = 2%nat ->
        exists pre v post, length v = 2%nat /\ get_ext (fst o) (h_exts h') = Some v /\
          marshal_hdr h = pre ++ q ++ post /\ marshal_hdr h' = pre ++ v ++ post
    | _, _ => True
    end) ops (run c ops).
Proof. exact run_wire_frame. Qed.
Print Assumptions C15e_wire_only_value_bytes_change.

(* SetExtension level, any value of the same length as the old one *)
Theorem C15e_set_extension_wire : forall id p h h' q,
  h_ext h = true -> h_profile h = PROFILE_ONE \/ h_profile h = PROFILE_TWO ->
  get_ext id (h_exts h) = Some q -> length p = length q ->
  set_extension id p h = Some h' ->
  exists pre post, marshal_hdr h = pre ++ q ++ post /\ marshal_hdr h' = pre ++ p ++ post.
Proof. exact set_extension_wire. Qed.
Print Assumptions C15e_set_extension_wire.

(* the executable position oracle ([order_spec], used on the implementation's outputs by
   seq_order_failures / life_order_failures / wire_spec) accepts the model on every history *)
Theorem C15e_model_satisfies_order_oracle : forall ops c, order_spec ops (run c ops) = 0%nat.
Proof. exact run_order_spec. Qed.
Print Assumptions C15e_model_satisfies_order_oracle.

(* the Prop-level wire statement is what clause 12 of [wire_spec] tests *)
Theorem C15e_wire_clause_sound : forall pre q v post, length q = 2%nat -> length v = 2%nat ->
  length (pre ++ q ++ post) = length (pre ++ v ++ post) /\
  within_two (diff_idx 0 (pre ++ q ++ post) (pre ++ v ++ post)) = true.
Proof. exact splice_within_two. Qed.
Print Assumptions C15e_wire_clause_sound.

(* non-vacuity: a two-byte-profile packet whose SOLE element is the old transport-cc value, and a
   one-byte-profile packet carrying it as the FIRST of three: forwarded, element in place, profile kept *)
Example C15e_nonvacuous_sole_two_byte :
  let h := mkH [2; 0; 0; 96; 7; 1000; 77; 0] true PROFILE_TWO [(5, [9; 9])] in
  run 3 [(5, Some h)] = [Forward (mkH [2; 0; 0; 96; 7; 1000; 77; 0] true PROFILE_TWO [(5, [0; 3])])] /\
  marshal_hdr h = [144; 96; 0; 7; 0; 0; 3; 232; 0; 0; 0; 77; 16; 0; 0; 1; 5; 2; 9; 9].
Proof. split; reflexivity. Qed.
Print Assumptions C15e_nonvacuous_sole_two_byte.

Example C15e_nonvacuous_first_of_three :
  let h := mkH [2; 0; 0; 96; 7; 1000; 77; 0] true PROFILE_ONE [(5, [9; 9]); (3, [1]); (7, [2; 2; 2])] in
  run 258 [(5, Some h)] =
    [Forward (mkH [2; 0; 0; 96; 7; 1000; 77; 0] true PROFILE_ONE [(5, [1; 2]); (3, [1]); (7, [2; 2; 2])])] /\
  order_spec [(5, Some h)] (run 258 [(5, Some h)]) = 0%nat.
Proof. split; reflexivity. Qed.
Print Assumptions C15e_nonvacuous_first_of_three.
