(* C03 (round-5 strengthening).  Statements only; models Model/NackOpts.v, specification of the
   configured values Spec/NackOptsSpec.v, proofs Proofs/NackOptsProofs.v.

   (a) "The configured window / the configured skip-last-N / a per-packet NACK limit" of the
   property text are what the caller passed to NewGeneratorInterceptor.  The options are closures
   run one after the other on the interceptor under construction (NewInterceptor); the property
   does not make the configuration depend on the order in which they were passed.
     gopt (k, v)       k = 0 GeneratorSize v, 1 GeneratorSkipLastN v, 2 GeneratorMaxNacksPerPacket v,
                       anything else: an option that writes none of these three fields
     new_cfg opts      the fields after the loop `for _, opt := range g.opts` (defaults 512, 0, 0)
     configured k d l  the value of the last option of kind k in l, else the default d
     spec_cfg opts     (configured 0 512, configured 1 0, configured 2 0)

   (b) The limit is per missing packet.  A tick at which the stream has nothing missing ends the
   life of every count of that stream (`nackCountLogs[ssrc] = map[uint16]uint16{}`): a number
   that is missing afterwards is a new loss with a full budget - also when its 16-bit value was
   requested before (one cycle of the sequence space earlier). *)
From IV Require Import Base.Word Model.ReceiveLog Model.NackGen Model.NackSend Model.NackOpts
  Spec.NackSpec Spec.NackGenSpec Spec.NackOptsSpec
  Proofs.NackGenProofs Proofs.NackGenMore Proofs.NackSendProofs Proofs.NackOptsProofs.
From Coq Require Import Permutation.

(* FULL: the interceptor is built with exactly the configured values, for every option list
   (any order, kinds left out, kinds repeated, unrelated options in between) *)
Theorem C03_options_give_configured_values : forall opts, new_cfg opts = spec_cfg opts.
Proof. exact new_cfg_configured. Qed.
Print Assumptions C03_options_give_configured_values.

(* FULL: neighbouring options of different kinds may change places (every reordering that keeps
   the relative order of the options of one kind is a sequence of such swaps) *)
Theorem C03_option_order_irrelevant : forall l1 o1 o2 l2, fst o1 <> fst o2 ->
  new_cfg (l1 ++ o1 :: o2 :: l2) = new_cfg (l1 ++ o2 :: o1 :: l2).
Proof. exact new_cfg_swap. Qed.
Print Assumptions C03_option_order_irrelevant.

(* FULL: every permutation of an option list that names each kind at most once *)
Theorem C03_option_permutation_irrelevant : forall l l', Permutation l l' -> NoDup (map fst l) ->
  new_cfg l = new_cfg l'.
Proof. exact new_cfg_perm. Qed.
Print Assumptions C03_option_permutation_irrelevant.

(* FULL, whole histories: for every option list whose configured values are valid, every SSRC and
   every operation list (each tick against its own arbitrary writer), the NACKs handed to the
   writer are the specification's list for the CONFIGURED values *)
Theorem C03_generator_exact_for_configured_values : forall opts s, cfg_ok (spec_cfg opts) ->
  forall ops, ops_u16 (map erase ops) ->
  map (out_for s) (wrun (new_cfg opts) gen_init ops) = spec_stream (spec_cfg opts) s ss_init (map erase ops).
Proof. exact generator_exact_configured. Qed.
Print Assumptions C03_generator_exact_for_configured_values.

(* non-vacuity: GeneratorSkipLastN 600 BEFORE GeneratorSize 1024 (the demonstration history of the
   seeded change): first packet 0, then 1000; exactly 1..400 are requested *)
Example C03_generator_exact_for_configured_values_nonvacuous :
  let opts := [(1, 600); (3, 5); (0, 1024)] in
  let ops := [WOp (Bind 0 true); WOp (Arrive 0 0 true); WOp (Arrive 0 1000 true); WOp Tick] in
  cfg_ok (spec_cfg opts) /\ ops_u16 (map erase ops) /\
  wrun (new_cfg opts) gen_init ops = [[(0, zrange 1 400)]].
Proof.
  cbv zeta. split; [|split].
  - vm_compute. repeat split; auto; try discriminate. do 4 right. left. reflexivity.
  - repeat constructor; cbn; lia.
  - vm_compute. reflexivity.
Qed.
Print Assumptions C03_generator_exact_for_configured_values_nonvacuous.

(* REFUTED variant (not the code): a GeneratorSkipLastN that clamps its argument to the size it
   finds in the interceptor builds a different interceptor when it precedes GeneratorSize *)
Theorem C03_clamping_option_order_dependent_refuted :
  c_skip (new_cfg_clamp [(0, 1024); (1, 600)]) = 600 /\
  c_skip (new_cfg_clamp [(1, 600); (0, 1024)]) = 512 /\
  c_size (new_cfg_clamp [(1, 600); (0, 1024)]) = 1024 /\
  new_cfg [(1, 600); (0, 1024)] = new_cfg [(0, 1024); (1, 600)].
Proof. exact clamp_order_dependent. Qed.
Print Assumptions C03_clamping_option_order_dependent_refuted.

(* FULL: whatever the counters of a stream were, after a tick at which it had nothing missing a
   number that is in the (duplicate-free) missing list of the following ticks is requested
   exactly min(limit, number of those ticks) times *)
Theorem C03_budget_renewed_by_empty_tick : forall mx x ms c, 0 < mx < 65536 ->
  (forall m, In m ms -> NoDup m /\ In x m) ->
  req_count x (tick_run mx ([] :: ms) c) = Z.min (Z.of_nat (length ms)) mx.
Proof. exact budget_renewed. Qed.
Print Assumptions C03_budget_renewed_by_empty_tick.

Example C03_budget_renewed_nonvacuous :
  req_count 3 (tick_run 1 ([] :: [[3]; [3; 9]]) (Some [(3, 1)])) = 1.
Proof. vm_compute. reflexivity. Qed.
Print Assumptions C03_budget_renewed_nonvacuous.

(* REFUTED variant (not the code): a tick body that leaves the counts alone when nothing is
   missing never requests the number again *)
Theorem C03_counts_kept_over_empty_tick_refuted :
  tick_run_keep 1 [[3]; []; [3]] None = [Some [3]; None; None] /\
  tick_run 1 [[3]; []; [3]] None = [Some [3]; None; Some [3]].
Proof. exact keep_counts_refuted. Qed.
Print Assumptions C03_counts_kept_over_empty_tick_refuted.
