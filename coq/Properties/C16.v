(* C16 - GCC target bitrate stays finite, within bounds, and consistent.
   Decision layer; every float stage is an arbitrary integer oracle (the [raw]
   arguments of the ops), so the theorems cover NaN/Inf/overflowing conversions. *)
From IV Require Import Base.Word Model.GccDecision Proofs.GccDecisionProofs Generated.GoCoresC16 Proofs.GeneratedEqC16.

(* For every configuration min <= initial <= max, every sequence of delay-statistics
   and loss updates and every value the float stages may produce: the published
   target, everything told to the pacer and everything given to the callback lie in [min, max]. *)
Theorem C16_bounds : forall cmin cmax initial ops, cmin <= cmax -> cmin <= initial <= cmax ->
  let s := grun cmin cmax true (ginit initial) ops in
  in_range cmin cmax (g_latest s) /\ Forall (in_range cmin cmax) (g_pacer s) /\
  Forall (in_range cmin cmax) (g_cb s).
Proof. intros cmin cmax initial ops H1 H2. exact (bounds_all cmin cmax H1 initial ops H2). Qed.
Print Assumptions C16_bounds.

(* positive whenever the configured minimum is *)
Theorem C16_positive : forall cmin cmax initial ops, 0 < cmin -> cmin <= cmax -> cmin <= initial <= cmax ->
  0 < g_latest (grun cmin cmax true (ginit initial) ops).
Proof.
  intros cmin cmax initial ops Hp Hmm Hi.
  destruct (bounds_all cmin cmax Hmm initial ops Hi) as [[H _] _]. exact (Z.lt_le_trans _ _ _ Hp H).
Qed.
Print Assumptions C16_positive.

(* the callback receives exactly the values the pacer is told, in the same order,
   and the getter returns the last of them (the initial rate before any change) *)
Theorem C16_consistent : forall cmin cmax initial ops, cmin <= cmax -> cmin <= initial <= cmax ->
  let s := grun cmin cmax true (ginit initial) ops in
  g_cb s = g_pacer s /\ g_latest s = last (g_pacer s) initial.
Proof. intros cmin cmax initial ops H1 H2. exact (consistent_all cmin cmax H1 initial ops H2). Qed.
Print Assumptions C16_consistent.

Theorem C16_transition_total : forall s u, transition s u = 0 \/ transition s u = 1 \/ transition s u = 2.
Proof. exact transition_total. Qed.
Print Assumptions C16_transition_total.

Theorem C16_clamp_range : forall b lo hi, lo <= hi -> lo <= clampInt b lo hi <= hi.
Proof. exact clampInt_range. Qed.
Print Assumptions C16_clamp_range.

(* the code before the fix: in bounds when the configured minimum is at most the loss
   controller's own floor of 100 kbit/s (this includes the default configuration) ... *)
Theorem C16_prefix_bounds_when_min_low : forall cmin cmax s ops, cmin <= cmax -> cmin <= LOSS_MIN ->
  UInv cmin cmax s -> UInv cmin cmax (grun cmin cmax false s ops).
Proof. intros cmin cmax s ops H1 H2 H3. exact (urun_inv cmin cmax H1 H2 s ops H3). Qed.
Print Assumptions C16_prefix_bounds_when_min_low.

(* ... and refuted otherwise: min 200 kbit/s, loss drives the estimate to its floor, 100 kbit/s is published *)
Theorem C16_prefix_refuted :
  let s := grun 200000 1000000 false (ginit 300000)
             [DelayStats 2 0 300000; LossUpdate (Some 0); DelayStats 2 0 300000] in
  g_latest s = 100000 /\ g_pacer s = [100000].
Proof. exact unfixed_below_min. Qed.
Print Assumptions C16_prefix_refuted.

(* non-vacuity: the hypotheses of C16_bounds are met by the default configuration *)
Example C16_bounds_nonvacuous : 5000 <= 50000000 /\ 5000 <= 10000 <= 50000000.
Proof. split; [|split]; discriminate. Qed.
Print Assumptions C16_bounds_nonvacuous.

(* clampInt and state.transition of the model ARE what tools/go2coq derives from pkg/gcc/gcc.go
   and pkg/gcc/state.go on this run *)
Theorem C16_clamp_and_transition_are_source : forall a b c,
  g_gcc_clampInt a b c = clampInt a b c /\ g_gcc_state_transition a b = transition a b.
Proof. intros a b c. split; [exact (gen_clampInt_eq a b c)|exact (gen_transition_eq a b)]. Qed.
Print Assumptions C16_clamp_and_transition_are_source.
