(* C05, deepening round - statements only.
   Proofs: Proofs/TwccTruthProofs.v (the oracle's ground truth = the model's
   arrival map, one Record), Proofs/TwccBuildMore.v (packets of a build, whole
   histories), Proofs/ArrivalMapPow2.v (capacity of the circular buffer).

   1. C05_build: the history-level composite of DESIGN section 5 (C05).  The
      per-Record / per-packet / per-build theorems of Properties/C05.v are
      assembled into ONE statement over every Record/Build history.  The ghost
      state is the ground truth of the specification oracle itself
      (Check/C05Check.v truth_record / truth_cull): R = the retained arrivals,
      [lo,hi) the window, S = the "already reported" frontier (every retained
      arrival below S has been reported).  C05_oracle_state_record /
      C05_oracle_state_build prove that this ghost state IS what the function
      [oracle] threads through a history.
   2. C05_truth_is_model_map: on every history the oracle's ground truth and
      the model's abstract arrival map are the same set, window and frontier -
      so "the oracle accepts the implementation's packets" means "the packets
      report the arrivals the (proved) model retains".
   3. Power-of-two capacity of the concrete circular buffer, so Go's
      "sn & (cap-1)" is the model's "sn mod cap".

   Scope of 1 and 2: arrival times >= 0 ([ops_nonneg]; the interceptor records
   time.Since(start); a negative time collides with the -1 "not received"
   marker).  Nothing else is assumed: any length, any order, duplicates,
   jumps, builds anywhere. *)
From IV Require Import Base.Word Model.Unwrapper Model.TwccChunk Model.ArrivalMap Model.TwccRecorder
  Proofs.TwccChunkProofs Proofs.TwccFeedbackProofs Proofs.ArrivalMapProofs Proofs.ArrivalMapRefine
  Proofs.TwccRecorderProofs Check.C05Check Proofs.TwccTruthProofs Proofs.TwccBuildMore Proofs.TwccOracleSpec Proofs.TwccCorrespondSpec Proofs.ArrivalMapPow2.
From Coq Require Import Permutation.

(* ---- the ghost state is the oracle's ---- *)
(* [ost_record] / [ost_built] are exactly the state updates of [oracle]
   (Check/C05Check.v) on a Record and on an accepted Build *)
Theorem C05_oracle_state_record : forall sender st ssrc seq t tl outs,
  oracle sender st (Rec ssrc seq t :: tl) outs = oracle sender (ost_record st ssrc seq t) tl outs.
Proof. exact oracle_rec. Qed.
Print Assumptions C05_oracle_state_record.

Theorem C05_oracle_state_build : forall sender st tl ps outs,
  oracle sender st (Build :: tl) (ps :: outs) = 0%nat ->
  oracle sender st (Build :: tl) (ps :: outs) = oracle sender (ost_built st (length ps)) tl outs.
Proof. exact oracle_build. Qed.
Print Assumptions C05_oracle_state_build.

(* ---- 1. C05_build ----
   [hist_ok sender st ops outs] (Proofs/TwccBuildMore.v) walks the history with
   the oracle's state: a Record updates the ground truth by truth_record; at
   every Build the packets ps returned satisfy [build_ok]:
     * before anything was recorded: ps = [];
     * otherwise there is an unwrapped base UB >= S (numbers below the
       frontier are not reported again) with [pkts_chain]: the packets stand
       for the consecutive, non-overlapping ranges UB.., UB+count1.., ...
       (base = range start mod 2^16, count > 0), carry sender/media SSRC and
       consecutive feedback counters mod 256 starting at the recorder's, each
       is the marshalled form of a feedback satisfying the builder invariant
       fb_inv (so C05_packet_wire_form holds for it), and each [pkt_reports]:
       decoding it the way the oracle does (pkt_recv = decode_recv over the
       first count statuses and the deltas, from reference * 64 ms) yields
       every number at most once; every number it marks received has a
       retained arrival and the decoded time is within 125 us of it modulo
       the 24-bit reference range (near); every retained arrival of its range
       is marked received - hence every number of the range without retained
       arrival is marked not received and nothing without retained arrival is
       marked received;
     * every retained arrival at or after S - in particular everything
       recorded since the previous build and still retained - lies in
       [UB, end of the last range), i.e. is reported by this build;
     * the last range ends at the window end hi; the frontier becomes
       max(S, hi) (ost_built). *)
Theorem C05_build : forall sender ops, ops_nonneg ops ->
  hist_ok sender ost0 ops (rec_run sender rec_init ops).
Proof. intros sender ops H. exact (proj1 (history_ok sender ops ost0 rec_init rec_ok_init st_rel_init H)). Qed.
Print Assumptions C05_build.

(* the same without recursion over the history: after ANY history, what a
   BuildFeedbackPacket returns is right for the ground truth of that history *)
Theorem C05_build_after_any_history : forall sender ops, ops_nonneg ops ->
  build_ok sender (ost_state ost0 ops (rec_run sender rec_init ops))
           (snd (rec_build sender (rec_state sender rec_init ops))).
Proof. exact build_after_history. Qed.
Print Assumptions C05_build_after_any_history.

(* one packet of a build, spelled out (the per-packet half, now against the
   ground truth R instead of the model's entries): in a state whose map
   satisfies the invariant and holds only times >= 0, is not empty and whose
   newest number is an entry (all of this holds in every reachable state, see
   C05_build), maybeBuildFeedbackPacket(b, end) with b < end returns a packet,
   bumps the counter, and the packet reports exactly the retained arrivals of
   [UB, UB + count) where UB = max(b, first - 0x7FFE) <= every retained
   arrival at or after b *)
Theorem C05_build_packet : forall sender r b R,
  let m := r_map r in
  am_inv m -> Forall (fun e => 0 <= snd e) (m_ent m) -> Permutation R (m_ent m) ->
  b < m_end m -> m_begin m < m_end m -> (exists v, In (m_end m - 1, v) (m_ent m)) ->
  exists fb next' first t0,
    rec_maybe_build sender r b (m_end m) = (Some fb, next', (r_fb r + 1) mod 256) /\
    In (first, t0) (m_ent m) /\ am_clamp m b <= first < next' /\ next' <= m_end m /\
    let UB := Z.max b (first - 32766) in
    let p := fb_get_rtcp sender (r_media r) (r_fb r) fb in
    (forall k t, In (k, t) R -> b <= k -> UB <= k) /\
    p_base p = UB mod 65536 /\ 0 < p_count p /\ next' = UB + p_count p /\ pkt_reports R UB p /\
    (exists syms, fb_inv fb syms /\ Z.of_nat (length syms) < 65536).
Proof. exact packet_step. Qed.
Print Assumptions C05_build_packet.

(* non-vacuity: a history with reordering, a duplicate, a late packet after a
   build and a 500 ms cull satisfies the hypothesis and produces packets in
   three of its four builds *)
Example C05_build_nonvacuous_history :
  let ops := [Rec 7 10 1000; Rec 7 12 2000; Rec 7 11 2500; Build; Rec 7 11 2600; Rec 7 9 3000; Build;
              Rec 7 20 900000; Build; Build] in
  ops_nonneg ops /\ map (@length pkt) (rec_run 1 rec_init ops) = [1; 1; 1; 0]%nat.
Proof. cbv zeta. split; [cbn; lia|vm_compute; reflexivity]. Qed.
Print Assumptions C05_build_nonvacuous_history.

(* ---- 2. the oracle's ground truth is the model's arrival map ---- *)
(* one Record: truth_record (with truth_cull inside) and rec_record (unwrap,
   maybeCullOldPackets, HasReceived, AddPacket, start pointer) keep the two
   states related; [truth_rel g r] = same retained set (Permutation), same
   window, same allocation flag, frontier S = start pointer; [rec_ok] is the
   model-side invariant (map invariant, times >= 0, newest number present,
   allocated maps not empty, start pointer set iff allocated) *)
Theorem C05_truth_record_step : forall g r ssrc seq t,
  rec_ok r -> truth_rel g r -> 0 <= t ->
  let u := snd (unwrap (r_unw r) seq) in
  let r' := rec_record r ssrc seq t in
  truth_rel (truth_record g u t) r' /\ rec_ok r' /\
  r_unw r' = fst (unwrap (r_unw r) seq) /\ r_media r' = ssrc /\ r_fb r' = r_fb r.
Proof. exact record_rel. Qed.
Print Assumptions C05_truth_record_step.

(* every history (Records and Builds): the retained arrivals of the oracle are
   the entries of the model's map (as sets: Permutation; the map's entries have
   distinct keys), window and "anything recorded" agree, the frontier S is the
   model's start pointer, and the oracle's "this number still has a retained
   arrival" is the model's HasReceived *)
Theorem C05_truth_is_model_map : forall sender ops, ops_nonneg ops ->
  let g := o_truth (ost_state ost0 ops (rec_run sender rec_init ops)) in
  let r := rec_state sender rec_init ops in
  Permutation (t_R g) (m_ent (r_map r)) /\ t_lo g = m_begin (r_map r) /\ t_hi g = m_end (r_map r) /\
  t_any g = m_alloc (r_map r) /\ t_S g = r_start r /\
  (forall k, match r_find k (t_R g) with Some t0 => t0 >=? 0 | None => false end = am_has (r_map r) k).
Proof. exact truth_is_model_map. Qed.
Print Assumptions C05_truth_is_model_map.

(* ---- the oracle's boolean checks are the Prop-level specification ---- *)
(* failure codes 6 (reported received without retained arrival), 7 (decoded
   time not within 125 us) and 8 (retained arrival marked not received) of
   rec_spec_failures, computed by [sem_code] on the oracle's own decoding of a
   packet, are equivalent to [pkt_reports], the per-packet clause of C05_build,
   for ANY packet (the implementation's included) - given one retained arrival
   per number and times >= 0, which C05_truth_wf provides on every history *)
Theorem C05_oracle_sem_code_iff : forall R UB p,
  NoDup (map fst R) -> Forall (fun e => 0 <= snd e) R -> 0 <= p_count p ->
  (sem_code R UB p (pkt_recv UB p) = 0%nat <-> pkt_reports R UB p).
Proof. exact sem_code_spec. Qed.
Print Assumptions C05_oracle_sem_code_iff.

(* failure code 9 (a retained, not-yet-reported arrival missing from the
   build) <-> every retained arrival at or after the frontier is reported *)
Theorem C05_oracle_pending_iff : forall g reported s,
  t_S g = Some s -> Forall (fun e => 0 <= snd e) (t_R g) ->
  (all_pending_reported g reported = true <->
   forall k t, In (k, t) (t_R g) -> s <= k -> exists T, In (k, T) reported).
Proof. exact all_pending_spec. Qed.
Print Assumptions C05_oracle_pending_iff.

Theorem C05_truth_wf : forall sender ops, ops_nonneg ops ->
  let g := o_truth (ost_state ost0 ops (rec_run sender rec_init ops)) in
  NoDup (map fst (t_R g)) /\ Forall (fun e => 0 <= snd e) (t_R g).
Proof. exact truth_wf. Qed.
Print Assumptions C05_truth_wf.

(* ---- the oracle is sound for the Prop-level specification ---- *)
(* [hist_spec] (Proofs/TwccOracleSpec.v) is [hist_ok] without the two
   model-specific clauses (each packet is the marshalled form of a builder
   state; the first base is >= S and the last range ends at hi): at every
   Build, nothing before any record; otherwise consecutive ranges from some
   unwrapped base UB, SSRCs, consecutive counters, count > 0, every packet
   [pkt_reports] (exactly the retained arrivals of its range, times within
   125 us) and every retained arrival at or after the frontier S is covered.
   If rec_spec_failures reports nothing for a history and the packets an
   implementation returned (failure code 0), those packets satisfy hist_spec.
   So "the oracle accepts" is not only a computation: it implies the property
   as stated in Prop, for the implementation's own packets. *)
Theorem C05_oracle_sound : forall sender ops outs, ops_nonneg ops ->
  rec_spec_code (sender, ops, outs) = 0%nat -> hist_spec sender ost0 ops outs.
Proof. exact oracle_sound_case. Qed.
Print Assumptions C05_oracle_sound.

(* and the model's packets satisfy the same specification on every history *)
Theorem C05_model_meets_oracle_spec : forall sender ops, ops_nonneg ops ->
  hist_spec sender ost0 ops (rec_run sender rec_init ops).
Proof. intros sender ops H. exact (model_meets_spec sender ops ost0 rec_init rec_ok_init st_rel_init H). Qed.
Print Assumptions C05_model_meets_oracle_spec.

(* codes 3 / 4 / 5 in Prop: every packet of an accepted history has the wire
   form of the property statement ([pkt_form]: marshalled length = 4 *
   (header Length + 1) = content rounded to 32 bits = number of bytes, padding
   bit; the chunks expand to exactly count statuses in {0,1,2} plus < 14 zero
   padding symbols with no chunk beyond the count; exactly one delta per
   received status, of the type the status names, a multiple of 250 us that
   fits its wire size).  No scope hypothesis. *)
Theorem C05_oracle_sound_wire_form : forall sender ops outs,
  rec_spec_code (sender, ops, outs) = 0%nat -> Forall (Forall pkt_form) outs.
Proof. exact (fun sender ops outs H => oracle_sound_form sender ops ost0 outs H). Qed.
Print Assumptions C05_oracle_sound_wire_form.

(* non-vacuity of C05_oracle_sound / C05_oracle_sound_wire_form: a history with
   the packet the real implementation returned for it (bytes included, taken
   from a generated case) is accepted by the oracle *)
Example C05_oracle_accepts_nonvacuous :
  let ops := [Rec 1000 38135 1222; Build] in
  let outs := [[Pkt 52711 1000 38135 1 0 0 5 1 24 [(0, [1; 1])] [(1, 1250)]
                    [175; 205; 0; 5; 0; 0; 205; 231; 0; 0; 3; 232; 148; 247; 0; 1; 0; 0; 0; 0; 32; 1; 5; 1]]] in
  ops_nonneg ops /\ rec_spec_code (52711, ops, outs) = 0%nat.
Proof. cbv zeta. split; [cbn; lia|vm_compute; reflexivity]. Qed.
Print Assumptions C05_oracle_accepts_nonvacuous.

(* ---- what "no mismatch" of the correspondence check means ---- *)
(* if the packets an implementation returned for a history agree with the
   model's in every field rec_mismatches compares (rec_model_ok = true), they
   satisfy hist_spec: the model's packets do (C05_model_meets_oracle_spec) and
   hist_spec only reads compared fields.  Together with C05_oracle_sound the
   two checkers of bin/check C05 each IMPLY the Prop-level property for the
   implementation's own packets, by two independent routes. *)
Theorem C05_correspondence_implies_spec : forall sender ops outs, ops_nonneg ops ->
  rec_model_ok (sender, ops, outs) = true -> hist_spec sender ost0 ops outs.
Proof. exact model_ok_spec. Qed.
Print Assumptions C05_correspondence_implies_spec.

(* the ghost frontier and "recorded since the previous feedback": a Record
   leaves the frontier S at or below the number just recorded and at or below
   every number it was at or below before (numbers inside the window), so every
   arrival recorded since the previous build and still retained is at or after
   S - and C05_build says everything retained at or after S is reported by the
   next build *)
Theorem C05_frontier_covers_new_records : forall g U t,
  let g' := truth_record g U t in
  exists s', t_S g' = Some s' /\
    forall k, (k = U \/ exists s, t_S g = Some s /\ s <= k) -> t_lo g' <= k -> s' <= k.
Proof. exact truth_frontier. Qed.
Print Assumptions C05_frontier_covers_new_records.

(* ---- 3. capacity of the concrete circular buffer ---- *)
(* after EVERY sequence of AddPacket / RemoveOldPackets from the empty buffer
   (no side condition) the capacity of the concrete model [cmap] is 0 (nothing
   added yet) or a power of two between minCapacity = 2^7 and
   maxNumberOfPackets = 2^15 (reallocate(128) first; adjustToSize only doubles
   and halves, never below 128), and the valid range fits the buffer *)
Theorem C05_capacity_power_of_two : forall os,
  cm_cap (fold_left cm_step os cm_empty) = 0 \/
  exists k, 7 <= k <= 15 /\ cm_cap (fold_left cm_step os cm_empty) = 2 ^ k.
Proof. exact cm_cap_pow2. Qed.
Print Assumptions C05_capacity_power_of_two.

Theorem C05_capacity_after_first_add : forall os1 sn t os2,
  exists k, 7 <= k <= 15 /\ cm_cap (fold_left cm_step (os1 ++ OpAdd sn t :: os2) cm_empty) = 2 ^ k.
Proof. exact cm_cap_pow2_after_add. Qed.
Print Assumptions C05_capacity_after_first_add.

Theorem C05_range_fits_capacity : forall os,
  cm_end (fold_left cm_step os cm_empty) - cm_begin (fold_left cm_step os cm_empty)
  <= cm_cap (fold_left cm_step os cm_empty).
Proof. exact cm_range_fits. Qed.
Print Assumptions C05_range_fits_capacity.

(* hence Go's index() "sn & (capacity-1)" (two's complement, negative sn
   included) is the model's "sn mod capacity" in every reachable state *)
Theorem C05_index_and_is_mod : forall k sn, 0 <= k -> Z.land sn (2 ^ k - 1) = sn mod 2 ^ k.
Proof. exact pow2_index. Qed.
Print Assumptions C05_index_and_is_mod.

Theorem C05_index_land : forall os sn,
  let c := fold_left cm_step os cm_empty in
  cm_cap c <> 0 -> Z.to_nat (Z.land sn (cm_cap c - 1)) = cm_index c sn.
Proof. exact cm_index_land. Qed.
Print Assumptions C05_index_land.
