(* C19, float layer - the float64 kernels of pkg/stats/stats_recorder.go as executed by the
   primitive-float kernels of Model/StatsKernels.v (and internal/ntp's ToTime fraction kernel
   of Model/Ntp.v) compute the WebRTC-stats formulas.  Statements only; proofs are in
   Proofs/StatsFloatProofs.v (PrimFloat linked to Flocq binary64 through the lemmas of
   Proofs/NtpFloatProofs.v; error analysis shared with Proofs/ReportFloatProofs.v).

   Ranges are explicit in every statement: DLSR / DLRR delay fields 0 <= dly < 2^32 (uint32),
   NTP fraction 0 <= fr < 2^32, any 64-bit NTP time n and any arrival instant ts (they enter
   through exact integer arithmetic only), jitter and clock rate below 2^53 (uint32 in the
   code), fractionLost below 2^53 (uint8 in the code), durations 0 <= ns <= 2^63-1.

   [FR f] is the real value of the finite primitive float f (Flocq's B2R (Prim2B f));
   [fin f] says that f is finite; [rnd64] is binary64 round-to-nearest-even on reals. *)
From IV Require Import Base.Word Base.F64 Model.Ntp Model.SenderStream Model.StatsRecorder Model.StatsKernels
  Proofs.NtpFloatProofs Proofs.ReportFloatProofs Proofs.StatsFloatProofs.
From Coq Require Import ZArith Reals.
From Flocq Require Import Core.Core.
Open Scope Z_scope.

(* ---------- round-trip time ---------- *)

(* the delay kernel time.Duration(float64(d)/65536.0*float64(time.Second)) is EXACT:
   both float operations are error-free for a uint32 d, the result is floor(d*10^9/65536) ns *)
Theorem C19_delay_kernel_exact : forall d, 0 <= d < 4294967296 ->
  sk_delay d = d * 1000000000 / 65536.
Proof. exact sk_delay_exact. Qed.
Print Assumptions C19_delay_kernel_exact.

(* ntp.ToTime's fraction kernel (divides by 2^32 - 1): within (-1.001 ns, +0.25 ns] of fr*10^9/2^32,
   stated times 2^32 *)
Theorem C19_ntp_fraction_kernel_bound : forall fr, 0 <= fr < 4294967296 ->
  - (4294967296 + 1024) <= frac_kernel fr * 4294967296 - fr * 1000000000 <= 1073741824 /\
  0 <= frac_kernel fr <= 1000000000.
Proof. exact frac_kernel_bound. Qed.
Print Assumptions C19_ntp_fraction_kernel_bound.

(* one RTT sample (ts.Add(-delay)).Sub(ntp.ToTime(n)) - the LSR/DLSR form of recordIncomingRR and
   the DLRR form of recordIncomingXR are this same expression with the same two kernels -
   against the exact formula ts - dly/65536 s - unix(n), both times 2^32:
   error in [-0.25 ns, +2 ns + 2^-22 ns] *)
Theorem C19_rtt_sample_bound : forall ts dly n, 0 <= dly < 4294967296 ->
  - 1073741824 <= rtt_exec ts dly n * 4294967296 - rtt_exact_x32 ts dly n <= 2 * 4294967296 + 1024.
Proof. exact rtt_exec_bound. Qed.
Print Assumptions C19_rtt_sample_bound.

(* hence the 3 ns per-sample tolerance of the specification oracle (Check/C19Check.v) *)
Theorem C19_rtt_sample_within_3ns : forall ts dly n, 0 <= dly < 4294967296 ->
  Z.abs (rtt_exec ts dly n * 4294967296 - rtt_exact_x32 ts dly n) <= 3 * 4294967296.
Proof. exact rtt_exec_within_3ns. Qed.
Print Assumptions C19_rtt_sample_within_3ns.

(* [rtt_exec] is the model's rtt_of with the executable kernels (definitional) *)
Theorem C19_rtt_exec_is_model_sample : forall ts dly n,
  rtt_exec ts dly n = rtt_of sk_delay frac_kernel ts dly n.
Proof. reflexivity. Qed.
Print Assumptions C19_rtt_exec_is_model_sample.

(* non-vacuity: arrival 1.5 s after an SR stamped 2023-11-14T22:13:20.5Z, delay 0.5 s: RTT 0.5 s *)
Example C19_rtt_sample_nonvacuous :
  rtt_exec 1700000001500000000 32768 (3908988800 * 4294967296 + 2147483648) = 500000000.
Proof. exact rtt_exec_nonvacuous. Qed.
Print Assumptions C19_rtt_sample_nonvacuous.

(* ---------- jitter / clockRate, fractionLost / 256 ---------- *)

(* float64(report.Jitter) / clockRate: finite, the correctly rounded quotient, relative error 2^-53 *)
Theorem C19_remote_jitter_kernel_relative_2pow53 : forall rate j,
  0 <= j < 9007199254740992 -> 0 < rate < 9007199254740992 ->
  fin (sk_rjitter rate j) /\ FR (sk_rjitter rate j) = rnd64 (IZR j / IZR rate) /\
  (Rabs (FR (sk_rjitter rate j) - IZR j / IZR rate) <= / 9007199254740992 * (IZR j / IZR rate))%R.
Proof. exact sk_rjitter_bound. Qed.
Print Assumptions C19_remote_jitter_kernel_relative_2pow53.

(* float64(report.FractionLost) / 256.0: EXACT *)
Theorem C19_fraction_lost_kernel_exact : forall fl, 0 <= fl < 9007199254740992 ->
  fin (sk_frac fl) /\ FR (sk_frac fl) = (IZR fl / 256)%R.
Proof. exact sk_frac_exact. Qed.
Print Assumptions C19_fraction_lost_kernel_exact.

(* ---------- uint32(Seconds() * clockRate) of recordIncomingRTP: the C07 kernel ---------- *)
Theorem C19_units_kernel_meets_oracle_tolerance : forall rate ns,
  0 <= ns <= MaxDur -> 0 <= rate < 4294967296 ->
  let exact := ns * rate / 1000000000 in
  exact < 4611686018427387904 ->
  Z.abs (s32 (sk_units rate ns - exact)) <= 1 + exact / 1125899906842624.
Proof. exact sk_units_oracle. Qed.
Print Assumptions C19_units_kernel_meets_oracle_tolerance.

Theorem C19_units_kernel_within_one_tick : forall rate ns,
  0 <= ns <= MaxDur -> 0 <= rate < 4294967296 ->
  let exact := ns * rate / 1000000000 in
  exact < 4294967294 -> Z.abs (sk_units rate ns - exact) <= 1.
Proof. exact sk_units_within_one_tick. Qed.
Print Assumptions C19_units_kernel_within_one_tick.

(* ---------- inbound jitter update  Jitter += (1.0/16.0) * (float64(d)/clockRate - Jitter) ---------- *)
(* for every finite accumulator 0 <= J <= 2^54 (seconds), every 0 <= d < 2^53 (|transit difference| in
   RTP units; below 2^33 in the code) and clock rate 0 < rate < 2^53: the executable step is finite,
   NON-NEGATIVE, again at most 2^54 (the hypotheses are an invariant, and 0.0 satisfies them), and within
   2^-52 * (d/rate + J) + 2^-1072 of the exact rational step J + (d/rate - J)/16 *)
Theorem C19_inbound_jitter_step_nonneg_bounded_accurate : forall rate j d,
  0 <= d < 9007199254740992 -> 0 < rate < 9007199254740992 ->
  fin j -> (0 <= FR j <= 18014398509481984)%R ->
  let J' := sk_jitter rate j d in
  fin J' /\ (0 <= FR J' <= 18014398509481984)%R /\
  (Rabs (FR J' - (FR j + (IZR d / IZR rate - FR j) / 16))
    <= / 4503599627370496 * (IZR d / IZR rate + FR j) + bpow radix2 (-1072))%R.
Proof. exact sk_jitter_step. Qed.
Print Assumptions C19_inbound_jitter_step_nonneg_bounded_accurate.

(* the executable step IS the real-number model with one binary64 rounding per float operation *)
Theorem C19_inbound_jitter_kernel_is_real_model : forall rate j d,
  0 <= d < 9007199254740992 -> 0 < rate < 9007199254740992 ->
  fin j -> (0 <= FR j <= 18014398509481984)%R ->
  fin (sk_jitter rate j d) /\ FR (sk_jitter rate j d) = sjitR (FR j) rate d.
Proof. exact sk_jitter_link. Qed.
Print Assumptions C19_inbound_jitter_kernel_is_real_model.
