(* C09 - placeholder while the pipeline is brought up *)
From IV Require Import Base.Word Model.FbAdapter Check.C09Check.
Theorem C09_placeholder : True. Proof. exact I. Qed.
Print Assumptions C09_placeholder.
