(* C09 - Feedback decoding attributes each acknowledgement to the right sent packet.
   Statements only; proofs are in Proofs/FbAdapterProofs.v (cc adapter).
   The rtpfb half of the property (Model/RtpfbConvert.v, Model/RtpfbHistory.v:
   each sent packet reported at most once, in send order, with the status the
   latest feedback encodes) has NO theorem here: it is tied to the code
   differentially and enforced on every generated history by the oracle
   fb_spec_failures (codes 31-36) only.
   Vocabulary (Spec/FbSpec.v): [symbols cs] = the chunks expanded to one status
   symbol per offset; [arrival_at ref syms ds k] = reference time + the deltas of
   the delta-carrying symbols at offsets <= k; [decode_at e ...] = what offset k
   reports given the send-history entry e of sequence number base + k;
   [send_log ops] = everything OnSent recorded, most recent first. *)
From IV Require Import Base.Word Model.FbAdapter Spec.FbSpec Proofs.FbAdapterProofs.

(* Position semantics (TWCC, cc adapter, after the fix commits).  For every
   history content h and every feedback that is not rejected: one entry per
   status symbol, and the entry at offset k is a function of the feedback and of
   the history entry of sequence number base + k ALONE - its status is symbol k,
   its arrival is ref + sum of the deltas of the received symbols at offsets <= k,
   whether or not any neighbouring packet is still in the history. *)
Theorem C09_position_semantics : forall h base ref24 cs ds acks,
  0 <= base < 65536 ->
  on_twcc h base ref24 cs ds = Some acks ->
  length acks = length (symbols cs) /\
  forall k, (k < length (symbols cs))%nat ->
    nth k acks zero_ack = decode_at (hget h 0 ((base + Z.of_nat k) mod 65536)) ref24 (symbols cs) ds k.
Proof. exact twcc_position. Qed.
Print Assumptions C09_position_semantics.

Example C09_position_semantics_nonvacuous :
  on_twcc [(12, 0, 1021, 2, 0, 0); (10, 0, 1020, 1, 0, 0)] 10 1 [SV [1; 1; 1; 0; 0; 0; 0]] [1000; 5000; 250]
  = Some [(10, 0, 1020, 1, 65000000, 0); zero_ack; (12, 0, 1021, 2, 70250000, 0);
          zero_ack; zero_ack; zero_ack; zero_ack].
Proof. vm_compute. reflexivity. Qed.
Print Assumptions C09_position_semantics_nonvacuous.

(* A feedback is rejected exactly when it carries fewer deltas than delta-carrying
   symbols (never because of the history content). *)
Theorem C09_rejected_iff_too_few_deltas : forall h base ref24 cs ds,
  0 <= base < 65536 ->
  (on_twcc h base ref24 cs ds = None <-> (length ds < ndeltas (symbols cs))%nat).
Proof. exact twcc_rejected_iff. Qed.
Print Assumptions C09_rejected_iff_too_few_deltas.

(* The bounded history only returns what was sent: for every operation list,
   an entry found in the adapter's history is the MOST RECENT record of that
   (ssrc, sequence number) in the unbounded send log. *)
Theorem C09_history_sound : forall reftime ops,
  hist_sound (final reftime [] ops) (send_log ops []).
Proof. intros. apply final_sound. intros ? ? ? H; discriminate H. Qed.
Print Assumptions C09_history_sound.

Theorem C09_history_bounded : forall reftime ops,
  Z.of_nat (length (final reftime [] ops)) <= 250.
Proof. intros. apply (final_length reftime ops []). unfold CAP. simpl. lia. Qed.
Print Assumptions C09_history_bounded.

(* Every TWCC acknowledgement that is not the zero value names a sent packet
   (the most recent send with transport sequence number base + k) and carries
   its recorded size and departure time; k is its offset in the feedback. *)
Theorem C09_names_sent_packets_twcc : forall h log base ref24 cs ds acks k,
  hist_sound h log ->
  0 <= base < 65536 ->
  on_twcc h base ref24 cs ds = Some acks ->
  (k < length acks)%nat ->
  nth k acks zero_ack = zero_ack \/
  exists e, hget log 0 ((base + Z.of_nat k) mod 65536) = Some e /\
            ack_seq e = (base + Z.of_nat k) mod 65536 /\ ack_ssrc e = 0 /\
            ack_seq (nth k acks zero_ack) = ack_seq e /\
            ack_ssrc (nth k acks zero_ack) = ack_ssrc e /\
            ack_size (nth k acks zero_ack) = ack_size e /\
            ack_dep (nth k acks zero_ack) = ack_dep e /\
            ack_ecn (nth k acks zero_ack) = ack_ecn e.
Proof. exact twcc_names_sent. Qed.
Print Assumptions C09_names_sent_packets_twcc.

(* Range, PARTIAL: every acknowledgement sits at an offset below the number of
   status symbols the chunks hold, i.e. in [base, base + |symbols|).  The
   property asks for [base, base + PacketStatusCount); symbols of the last chunk
   beyond the count are reported (known finding F13, pinned by the package's
   tests) - see C09_beyond_count_refuted.  When the chunks hold exactly
   PacketStatusCount symbols the two ranges coincide. *)
Theorem C09_range_partial : forall h base ref24 cs ds acks,
  0 <= base < 65536 ->
  on_twcc h base ref24 cs ds = Some acks ->
  length acks = length (symbols cs).
Proof. intros h base ref24 cs ds acks Hb H. exact (proj1 (twcc_position _ _ _ _ _ _ Hb H)). Qed.
Print Assumptions C09_range_partial.

Theorem C09_beyond_count_refuted :
  (* PacketStatusCount 2, a two-bit vector of 7 symbols, packets 10..16 sent:
     packet 14 (offset 4 >= 2) is reported, as lost *)
  exists acks, on_twcc h7 10 1 [SV [1; 1; 0; 0; 0; 0; 0]] [1000; 5000] = Some acks /\
               nth 4 acks zero_ack = (14, 0, 1000, 14, 0, 0).
Proof. exact beyond_count_witness. Qed.
Print Assumptions C09_beyond_count_refuted.

Theorem C09_run_beyond_count_rejected_refuted :
  (* PacketStatusCount 3, run length 5 of "received": the parser creates 3
     deltas, the adapter rejects the whole feedback *)
  on_twcc h7 10 1 [RL 1 5] [1000; 1000; 1000] = None.
Proof. exact run_beyond_count_witness. Qed.
Print Assumptions C09_run_beyond_count_rejected_refuted.

Theorem C09_zero_ack_for_unknown_refuted :
  (* only packet 10 was sent; offsets 1..6 yield zero-valued acknowledgements (F12) *)
  on_twcc [(10, 0, 1020, 1, 0, 0)] 10 1 [SV [1; 1; 0; 0; 0; 0; 0]] [1000; 5000]
  = Some [(10, 0, 1020, 1, 65000000, 0); zero_ack; zero_ack; zero_ack; zero_ack; zero_ack; zero_ack].
Proof. exact zero_ack_for_unknown_witness. Qed.
Print Assumptions C09_zero_ack_for_unknown_refuted.

(* RFC 8888 (cc adapter): the acknowledgements are exactly, block by block and
   metric block by metric block, the history entries of (ssrc, begin + n) with
   the status, arrival = reference - ato/1024 s and ECN of metric block n;
   packets that are not in the history are skipped without affecting any other. *)
Theorem C09_rfc8888 : forall h rt bs,
  Forall (fun b : rblock => 0 <= snd (fst b) < 65536) bs ->
  on_ccfb h rt bs =
  flat_map (fun b : rblock => let '(ssrc, begin, mbs) := b in ccfb_spec h rt ssrc begin 0 mbs) bs.
Proof. exact ccfb_position. Qed.
Print Assumptions C09_rfc8888.

Theorem C09_names_sent_packets_rfc8888 : forall h log rt bs a,
  hist_sound h log ->
  Forall (fun b : rblock => 0 <= snd (fst b) < 65536) bs ->
  In a (on_ccfb h rt bs) ->
  exists e, hget log (ack_ssrc a) (ack_seq a) = Some e /\
            ack_size a = ack_size e /\ ack_dep a = ack_dep e.
Proof. exact ccfb_names_sent. Qed.
Print Assumptions C09_names_sent_packets_rfc8888.
