(* C16, round-4 strengthening: "after Close it fails with the documented closed error" and "feeding
   feedback never panics" for every configuration - including a user-supplied pacer (option
   SendSideBWEPacer) whose Close reports an error, the one input on which the RESULT of SendSideBWE.Close
   and the closed state of the estimator can come apart.
   Model/GccCloseLife.v: WriteRTCP / Close / getter calls of one caller with their results; what the
   pacer's Close reports is an oracle value of the Close operation.  [lrun true] is the code
   (close(e.close) before e.pacer.Close()), [lrun false] the other statement order. *)
From IV Require Import Base.Word Model.GccCloseLife Model.GccPipeline Check.C16dCheck.
From IV Require Import Proofs.GccPipelineProofs Proofs.GccCloseLifeProofs.
Open Scope Z_scope.

(* no call panics, in whatever order WriteRTCP (with or without feedback packets), Close and the getters
   are called and whatever the pacer's Close reports each time *)
Theorem C16d_no_panic : forall ops r k, In (r, k) (lrun true linit ops) -> r <> LPanic.
Proof. exact life_no_panic. Qed.
Print Assumptions C16d_no_panic.

(* after ANY Close call - the first or a later one, whether the pacer's Close reported an error or not,
   i.e. whatever Close itself returned - every WriteRTCP fails with the closed error, every further Close
   returns nil and the pacer is not closed a second time *)
Theorem C16d_closed_after_any_close : forall ops1 perr ops2,
  lrun true (lfinal true linit (ops1 ++ [LClose perr])) ops2 = map (fun o => (closed_result o, 1%nat)) ops2.
Proof. exact life_closed_after_any_close. Qed.
Print Assumptions C16d_closed_after_any_close.

(* before any Close feedback is accepted and the pacer is not closed *)
Theorem C16d_open_before_close : forall ops, existsb is_close ops = false ->
  lrun true linit ops = map (fun o => (open_result o, 0%nat)) ops.
Proof. exact life_open_before_close. Qed.
Print Assumptions C16d_open_before_close.

(* the first Close returns exactly what the pacer's Close reported and calls it once *)
Theorem C16d_first_close_reports_pacer : forall ops1 perr, existsb is_close ops1 = false ->
  lrun true (lfinal true linit ops1) [LClose perr] = [(if perr then LPacerErr else LOk, 1%nat)].
Proof. exact life_first_close_reports_pacer. Qed.
Print Assumptions C16d_first_close_reports_pacer.

Theorem C16d_pacer_closed_once : forall ops,
  l_pcalls (lfinal true linit ops) = (if existsb is_close ops then 1 else 0)%nat.
Proof. exact life_pacer_closed_once. Qed.
Print Assumptions C16d_pacer_closed_once.

(* the other statement order (pacer closed and its error returned before close(e.close)) is refuted:
   Close with a failing pacer, then feedback -> send on a closed channel; a further Close -> close of a
   closed channel; a WriteRTCP without feedback packets -> nil instead of the closed error *)
Theorem C16d_pacer_first_refuted :
  lrun false linit [LClose true; LWrite 1; LClose false; LWrite 0] =
    [(LPacerErr, 1%nat); (LPanic, 1%nat); (LPanic, 1%nat); (LOk, 1%nat)].
Proof. exact life_pacer_first_refuted. Qed.
Print Assumptions C16d_pacer_first_refuted.

(* the oracle of the c16life set (Check/C16dCheck.v, written without the model) accepts every history of
   the model of the code, rejects the other statement order ... *)
Theorem C16d_model_meets_oracle : forall ops, life_spec_run false (model_obs true linit ops) = 0%nat.
Proof. exact life_model_meets_oracle. Qed.
Print Assumptions C16d_model_meets_oracle.

Theorem C16d_oracle_rejects_pacer_first :
  life_spec_run false (model_obs false linit [LClose true; LWrite 0]) = 2%nat /\
  life_spec_run false (model_obs false linit [LClose true; LWrite 1]) = 1%nat.
Proof. exact life_oracle_rejects_pacer_first. Qed.
Print Assumptions C16d_oracle_rejects_pacer_first.

(* ... and what it accepts satisfies the property's clauses on the observations (codes: 0 nil, 1 closed
   error, 2 the pacer's error, 4 panic, 5 no return): nothing panicked or hung; after a Close - whatever
   it returned - every WriteRTCP failed with the closed error, every Close returned nil, pacer closed
   once; the first Close returned what the pacer reported; before it feedback was accepted *)
Theorem C16d_oracle_sound : forall obs, life_spec_run false obs = 0%nat ->
  (forall o r k, In (o, r, k) obs -> r <> 4 /\ r <> 5) /\
  (forall a perr rc kc b, obs = a ++ (LClose perr, rc, kc) :: b ->
     forall o r k, In (o, r, k) b ->
       k = 1 /\ match o with LWrite _ => r = 1 | LClose _ => r = 0 | LGet => r = 0 end) /\
  (forall a perr rc kc b, obs = a ++ (LClose perr, rc, kc) :: b ->
     existsb (fun x => is_close (fst (fst x))) a = false ->
     rc = (if perr then 2 else 0) /\ kc = 1 /\
     forall o r k, In (o, r, k) a -> k = 0 /\ match o with LWrite _ => r = 0 | _ => True end).
Proof. exact life_oracle_sound. Qed.
Print Assumptions C16d_oracle_sound.

(* the same ordering in the LTS of all interleavings (Model/GccPipeline.v): whenever any Close gets to
   close the pacer, e.close is already closed - so no result of the pacer can leave the estimator open *)
Theorem C16d_lts_flag_closed_before_pacer_close : forall wpref s s',
  reachable wpref s -> step wpref s LClosePacer s' -> closed s = true /\ closed s' = true.
Proof. exact lts_flag_closed_before_pacer_close. Qed.
Print Assumptions C16d_lts_flag_closed_before_pacer_close.
