(* C11 - Lifecycle, round-3 strengthening.  Statements only.
   Model: Model/HandOff.v - the hand-off between packet calls and the loop goroutine (packetdump's logger,
   twcc / rfc8888 loop) with the loop's own blocking work explicit (LSel at its select / LBusy inside a write /
   LGone) and the kind of every channel send (SSelect: select on the send and the close channel; SCheck: isClosed
   test, then a plain send; SPlain).  Proofs: Proofs/HandOffProofs.v.
   Every theorem with a trace quantifies over ALL traces (any number of callers, any interleaving, any length).
   PARTIAL (as in C11.v): the records are hand-assigned; the held-loop runs of the harness (set c11h,
   Check/C11cCheck.v) compare them under the schedule "the loop is held inside its write, callers are parked at
   the send, Close is called from another goroutine". *)
From IV Require Import Base.Word Model.HandOff Check.C11cCheck Proofs.HandOffProofs.

(* a packet call parked at a select-on-close send returns by its OWN step as soon as the channel is closed: in
   ANY state - whatever the loop goroutine is doing (also while it stays inside a write for ever), whatever
   the other callers do, whether or not Close has returned *)
Theorem C11c_parked_sender_released_by_close_partial : forall c s t p,
  hsafe c = true -> hclosed s = true -> pfind t (hparked s) = Some p ->
  exists s', hstep c s (HWake t) = Some s' /\ pfind t (hparked s') = None /\ hloop s' = hloop s.
Proof. exact no_strand_once_closed. Qed.
Print Assumptions C11c_parked_sender_released_by_close_partial.

(* a packet call made once the channel is closed returns by its own steps (at most: park, wake) unless the send
   is a plain one - this also holds for the isClosed-then-send form, which is why no sequential script sees it *)
Theorem C11c_call_after_close_returns_partial : forall c s t p,
  kind_of c p <> SPlain -> hclosed s = true -> busy_thread s t = false ->
  exists cont s', hrun c s (HCall t p :: cont) = Some s' /\ pfind t (hparked s') = None /\
                  (cont = [] \/ cont = [HWake t]) /\ hloop s' = hloop s.
Proof. exact h_call_after_close_returns. Qed.
Print Assumptions C11c_call_after_close_returns_partial.

(* Close returns only after the loop goroutine has finished *)
Theorem C11c_close_waits_for_loop_partial : forall c tr s,
  h_wg c = true -> hrun c hinit tr = Some s -> hclose_ret s = true -> hloop s = LGone.
Proof. exact h_close_waits. Qed.
Print Assumptions C11c_close_waits_for_loop_partial.

(* Close never blocks indefinitely: in every reachable state a Close inside wg.Wait has a continuation (the
   loop's own work returns, its select takes the close case) after which it has returned - and that continuation
   needs no cooperation of the parked senders (no receive) *)
Theorem C11c_close_completes_partial : forall c tr s t,
  hrun c hinit tr = Some s -> wmem t (hwaiters s) = true ->
  exists cont s', hrun c s cont = Some s' /\ wmem t (hwaiters s') = false /\ hclose_ret s' = true /\
                  hloop s' = LGone /\ forallb not_recv cont = true.
Proof. exact h_close_completes. Qed.
Print Assumptions C11c_close_completes_partial.

(* on an interceptor that is NOT closed every parked packet call is served without any Close *)
Theorem C11c_open_hand_off_progress_partial : forall c tr s t p,
  hrun c hinit tr = Some s -> hclosed s = false -> pfind t (hparked s) = Some p ->
  exists cont s', hrun c s cont = Some s' /\ pfind t (hparked s') = None /\ hclosed s' = false /\
                  forallb not_close cont = true.
Proof. exact h_open_progress. Qed.
Print Assumptions C11c_open_hand_off_progress_partial.

(* the records of /repo: every hand-off send selects on the close channel *)
Theorem C11c_safe_instances : forallb hsafe [packetdump_hcfg; twcc_hcfg; rfc8888_hcfg] = true.
Proof. exact hsafe_instances. Qed.
Print Assumptions C11c_safe_instances.

(* a sender that Close cannot wake (isClosed-then-send, plain send) and that is parked when the loop is gone stays
   parked in EVERY continuation (invariant, not search) *)
Theorem C11c_unwakeable_sender_stranded : forall c t p s,
  kind_of c p <> SSelect -> hloop s = LGone -> pfind t (hparked s) = Some p ->
  forall cont s', hrun c s cont = Some s' -> pfind t (hparked s') = Some p.
Proof. exact unwakeable_sender_stranded. Qed.
Print Assumptions C11c_unwakeable_sender_stranded.

(* seeded change (packetdump LogRTCPPackets: `if isClosed() { return }` followed by a plain send): an RTCP write
   parked behind the busy logger when Close is called from another goroutine; the logger finishes, takes the close
   case, exits; Close RETURNS; the write is parked in every continuation *)
Theorem C11c_rtcp_check_then_send_refuted : exists tr s t,
  let c := packetdump_rtcp_check_hcfg in
  hrun c hinit tr = Some s /\ hclose_ret s = true /\ hwaiters s = [] /\ hloop s = LGone /\
  pfind t (hparked s) = Some PRtcp /\
  forall cont s', hrun c s cont = Some s' -> pfind t (hparked s') = Some PRtcp.
Proof. exact rtcp_check_stranded. Qed.
Print Assumptions C11c_rtcp_check_then_send_refuted.

(* non-vacuity: the same schedule on the record of /repo - the parked write wakes at the Close call while the
   logger is still inside its dump; nobody is parked when Close returns *)
Example C11c_rtcp_select_not_stranded : exists s,
  hrun packetdump_hcfg hinit [HCall 0 PRtcp; HRecv 0; HCall 1 PRtcp; HClose 2; HWake 1; HDone; HExit; HCloseRet 2] = Some s /\
  hparked s = [] /\ hclose_ret s = true /\ hloop s = LGone.
Proof. exact rtcp_select_not_stranded. Qed.
Print Assumptions C11c_rtcp_select_not_stranded.

(* why the sequential scripts could not see it: once the channel is closed the changed call returns at its test *)
Theorem C11c_rtcp_check_sequentially_invisible : forall s t,
  hclosed s = true -> busy_thread s t = false ->
  hstep packetdump_rtcp_check_hcfg s (HCall t PRtcp) = Some s.
Proof. exact rtcp_check_sequentially_invisible. Qed.
Print Assumptions C11c_rtcp_check_sequentially_invisible.

(* the oracle of the held-loop runs reports no code exactly when the property text holds on the observation *)
Theorem C11c_held_oracle_sound : forall mode k q obs, held_codes mode k q obs = [] <-> held_ok mode k q obs.
Proof. exact held_codes_nil_iff. Qed.
Print Assumptions C11c_held_oracle_sound.

(* the held schedule on the records of /repo satisfies the oracle: both modes, either first path, every list of up
   to 4 parked calls and up to 2 calls made after Close was called *)
Theorem C11c_held_model_clean_instances :
  forallb held_family_ok [twcc_hcfg; rfc8888_hcfg; packetdump_hcfg] = true.
Proof. exact held_model_clean_instances. Qed.
Print Assumptions C11c_held_model_clean_instances.

(* ... and on the seeded record it predicts what the held-loop runs observe on the seeded tree *)
Theorem C11c_held_model_seeded :
  held_model packetdump_rtcp_check_hcfg 0 PRtcp [PRtcp] [] = [1; 0; 0; 0; 0; 0; 0; 1; 0; 0] /\
  held_codes 0 1 0 (held_model packetdump_rtcp_check_hcfg 0 PRtcp [PRtcp] []) = [31%nat; 32%nat] /\
  held_model packetdump_rtcp_check_hcfg 0 PRtp [PRtp; PRtcp; PRtp] [PRtcp] = [1; 0; 2; 1; 0; 0; 0; 1; 0; 0] /\
  held_codes 0 1 0 (held_model packetdump_rtcp_check_hcfg 0 PRtcp [PRtp] []) = [].
Proof. exact held_model_seeded. Qed.
Print Assumptions C11c_held_model_seeded.

(* one more clause for the sequential scripts (set c11): the oracle "Bind x directly after Unbind x starts from
   fresh state" reports no code exactly when the clause holds on the observations *)
Theorem C11c_release_oracle_sound : forall ops prev obs,
  release_codes prev ops obs = [] <-> release_ok prev ops obs.
Proof. exact release_codes_nil_iff. Qed.
Print Assumptions C11c_release_oracle_sound.
