(* C08 - RFC 8888 reports reflect the reception history and respect the size limit.
   Statements only; proofs are in Proofs/StreamLogProofs.v and Proofs/Rfc8888Proofs.v.

   The property text is the specification oracle Spec/Rfc8888Spec.v (spec_walk):
   an independent recount from the arrival history that is also applied to the
   IMPLEMENTATION's reports on every run.  Its codes: 1 blocks <-> streams, 2
   contiguous range ending at the highest received, 3 received iff a first copy
   arrived, 4 range never re-covers a packet acknowledged in a gap-free prefix
   (3+4 = never reported lost after reported received), 5/6 arrival-time offset
   of the FIRST copy = floor(1024*(now-arrival)) with 0x1FFE/0x1FFF, 7/10 every
   first-time arrival is in the next report unless the block is full (newest
   kept), 8 marshalled size <= maximum when it can hold the headers, 9 at most
   16384 metric blocks per report block. *)
From IV Require Import Base.Word Model.Unwrapper Model.StreamLog Model.Rfc8888Recorder
  Spec.Rfc8888Spec Proofs.StreamLogProofs Proofs.Rfc8888Proofs Proofs.Rfc8888SpecProofs Proofs.StreamLogMono.

(* MAIN THEOREM.  For every history of AddPacket / BuildReport / raw-budget
   builds over any number of SSRCs (any arrival and report clocks, any maximum
   sizes, any placement of the builds), the reports produced by the model pass
   the whole specification oracle, except that code 7 may be returned: a packet
   OLDER than the first packet seen of its stream is never reported (known
   finding, refuted below).  Hypotheses: sequence numbers are uint16, ECN is two
   bits, raw budgets are non-negative (Go would panic), and the float kernel of
   getArrivalTimeOffset is exact (partial: exactness of the float64 kernel is
   validated bit-for-bit and against this oracle on every run, not proved). *)
Theorem C08_model_meets_spec_partial : forall atok, exact_kernel atok ->
  forall ops, Forall wf_op ops ->
  let c := spec_walk [] ops (model_outs atok [] ops) in c = 0%nat \/ c = 7%nat.
Proof. intros atok Hk ops Hwf. exact (model_meets_spec atok Hk ops Hwf). Qed.
Print Assumptions C08_model_meets_spec_partial.

(* non-vacuity: the exact kernel exists, and a history with loss, a duplicate,
   a second stream and two builds is well-formed and passes with code 0 *)
Example C08_nonvacuous :
  exact_kernel exact_atok /\
  let ops := [Add 1000 7 65534 0; Add 2000 7 0 1; Add 2500 9 5 0; Add 3000 7 65534 2;
              Build 5000000 1200; Add 6000000 7 65535 0; Build 9000000000 28; BuildRaw 9000000001 3] in
  Forall wf_op ops /\ spec_walk [] ops (model_outs exact_atok [] ops) = 0%nat.
Proof.
  split; [exact exact_atok_exact|]. split; [|vm_compute; reflexivity].
  repeat constructor; cbv; congruence.
Qed.
Print Assumptions C08_nonvacuous.

(* the faithful model does NOT report a packet older than the first of its
   stream: 99 arrives after 100 and the next report covers [100,100] only *)
Theorem C08_older_than_first_refuted :
  let ops := [Add 0 1 100 0; Add 1000000 1 99 0; Build 2000000 1200] in
  Forall wf_op ops /\
  model_outs exact_atok [] ops = [(24, [(1, 100, [mbz true 0 2])])] /\
  spec_walk [] ops (model_outs exact_atok [] ops) = 7%nat.
Proof. split; [repeat constructor; cbv; congruence|]. split; vm_compute; reflexivity. Qed.
Print Assumptions C08_older_than_first_refuted.

(* arrival-time offset: for every exact kernel the model's value is the specified one *)
Theorem C08_ato : forall atok, exact_kernel atok -> forall now arrival,
  ato atok now arrival =
    if now <? arrival then 8191                                              (* 0x1FFF *)
    else if 1024 * (now - arrival) >? 8189 * 1000000000 then 8190            (* 0x1FFE *)
    else (1024 * (now - arrival)) / 1000000000.
Proof. intros atok Hk now arrival. exact (ato_exact atok Hk now arrival). Qed.
Print Assumptions C08_ato.

(* metricsAfter in closed form, for EVERY stream state with a non-empty log,
   every kernel and budget: the block is the contiguous range
   [start, lastSequenceNumberReceived] with start = the cursor, or the newest
   `budget` numbers; entry k is "received" iff k is in the log; the cursor
   advances over exactly the gap-free received prefix, which is deleted. *)
Theorem C08_block_closed_form : forall atok s ref budget, sl_log s <> [] ->
  let start := trunc_next s budget in
  let log1 := trunc_log s budget in
  let cnt := range_cnt s budget in
  let p := Z.of_nat (pfx log1 start cnt) in
  exists log2,
    metrics_after atok s ref budget =
      (mkSlog (sl_ssrc s) (sl_seq s) (sl_init s) (start + p) (sl_last s) log2,
       (sl_ssrc s, u16 start, map (mbof atok ref log1) (zrange start cnt)))
    /\ (forall k, lfind k log2 = if (start <=? k) && (k <? start + p) then None else lfind k log1).
Proof. intros atok s ref budget H. exact (metrics_after_spec atok s ref budget H). Qed.
Print Assumptions C08_block_closed_form.

(* size limit and block limit of BuildReport: every recorder state (reachable or
   not), every kernel, every clock, every maximum size *)
Theorem C08_size : forall atok r now maxSize r' rep,
  rec_build atok r now maxSize = (r', rep) ->
  12 + 8 * Z.of_nat (length r) <= maxSize -> 0 <= marshal_len rep <= maxSize.
Proof. intros atok r now maxSize r' rep E. exact (proj2 (build_size atok r now maxSize r' rep E)). Qed.
Print Assumptions C08_size.

Theorem C08_block_limit : forall atok r now maxSize r' rep,
  rec_build atok r now maxSize = (r', rep) ->
  Forall (fun b : rblock => Z.of_nat (length (snd b)) <= 16384) rep.
Proof. intros atok r now maxSize r' rep E. exact (proj1 (build_size atok r now maxSize r' rep E)). Qed.
Print Assumptions C08_block_limit.

(* a report block never holds more metric blocks than a non-negative budget *)
Theorem C08_budget_respected : forall atok s ref budget, 0 <= budget ->
  Z.of_nat (length (snd (snd (metrics_after atok s ref budget)))) <= budget.
Proof. exact metrics_after_length. Qed.
Print Assumptions C08_budget_respected.

(* the boolean oracle of one report block (the one applied to the implementation's
   reports) is equivalent to its Prop-level reading block_spec: contiguous range
   ending at the highest received; no acknowledged packet re-covered; every entry is
   what the recount of first copies expects; every first-time arrival is inside
   unless the block is full / it lies below an earlier full report *)
Theorem C08_oracle_block_iff : forall st now B begin mbs,
  fst (o_report st now B begin mbs) = 0%nat <-> block_spec st now B begin mbs.
Proof. exact o_report_ok_iff. Qed.
Print Assumptions C08_oracle_block_iff.

(* the expected entry is marked Received exactly if a copy of that number arrived *)
Theorem C08_expected_received_iff : forall st now s,
  (forall ts ecn, lfind s (o_arr st) = Some (ts, ecn) -> 0 <= ecn < 4) ->
  (mbz_received (expected_mb st now s) = true <-> lfind s (o_arr st) <> None).
Proof. exact expected_mb_received. Qed.
Print Assumptions C08_expected_received_iff.

(* "A packet once reported received is never later reported lost", stream level,
   every kernel, every continuation of the history (arrivals incl. duplicates and
   report builds with any non-negative budgets): the cursor never moves back, and an
   arrival record (first copy: time and ECN unchanged) stays in the log until the
   cursor has passed it.  By C08_block_closed_form every later block starts at or
   above the cursor and marks k received iff k is in the log, so k is either marked
   received again (same first-copy data) or no longer in any range. *)
Theorem C08_cursor_monotone : forall atok ops s, sl_init s = true -> Forall wf_slop ops ->
  sl_init (sl_run atok s ops) = true /\ sl_next s <= sl_next (sl_run atok s ops).
Proof. exact run_mono. Qed.
Print Assumptions C08_cursor_monotone.

Theorem C08_never_unreceive : forall atok ops s k v, sl_init s = true -> Forall wf_slop ops ->
  lfind k (sl_log s) = Some v -> sl_next (sl_run atok s ops) <= k ->
  lfind k (sl_log (sl_run atok s ops)) = Some v.
Proof. exact retained_until_passed. Qed.
Print Assumptions C08_never_unreceive.
