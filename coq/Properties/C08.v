(* C08 - placeholder while the pipeline is brought up *)
From IV Require Import Base.Word Model.StreamLog Model.Rfc8888Recorder Spec.Rfc8888Spec.
Theorem C08_placeholder : True. Proof. exact I. Qed.
Print Assumptions C08_placeholder.
