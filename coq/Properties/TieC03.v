(* Source ties of C03, statements only.  Every theorem says that a hand-written model function that the
   property theorems are about IS (equal to, or refined by under the stated representation of
   the state) the Gallina definition that tools/go2coq regenerates from the Go source on this run
   (coq/Generated/GoCoresC03.v).  Proofs: coq/Proofs/GeneratedEqC03.v.  The theorem name starts with
   the id of the property it belongs to.

   Conventions.  uintN parameters carry their range hypothesis 0 <= x < 2^N explicitly.
   [bits_of p q] is bit q mod 64 of word q / 64 of the []uint64 bitmap p; [nack_rep sz p f] /
   [rs_rep p f] say that the model's bitmap f (position -> bool) is p read bit by bit;
   [chunk_of] is the model's record for a Go chunk {hasLargeDelta, hasDifferentTypes, deltas}.
   time.Time is the model's [option Z], float64 any type (both are only copied by the functions
   concerned).  g_f_safe = true: the Go function does not panic on these inputs. *)
From IV Require Import Base.Word.
From IV Require Model.ReceiveLog Proofs.ReceiveLogProofs Model.ReceiverStream Model.SenderStream Model.TwccChunk
  Model.ArrivalMap Model.Flexfec Model.GccDecision Model.MemBound Model.PriorityQueue Model.JitterBuffer Spec.FlexfecSpec.
From IV Require Import Base.GoPrelude Proofs.GoPreludeProofs Generated.GoCoresC03 Proofs.GeneratedEqC03.
Import ReceiveLogProofs.

(* pkg/nack/receive_log.go: every method of receiveLog *)

Theorem C03_model_is_the_source_getReceived : forall p f sz seq,
  valid_size sz -> 0 <= seq < 65536 -> nack_rep sz p f ->
  g_nack_receiveLog_getReceived p sz seq = ReceiveLog.get_recv f sz seq.
Proof. exact gen_nack_getReceived_eq. Qed.
Print Assumptions C03_model_is_the_source_getReceived.

Theorem C03_model_is_the_source_setReceived : forall p f sz seq,
  valid_size sz -> 0 <= seq < 65536 -> g_len p = sz / 64 -> nack_rep sz p f ->
  nack_rep sz (g_nack_receiveLog_setReceived p sz seq) (ReceiveLog.set_recv f sz seq).
Proof. exact gen_nack_setReceived_eq. Qed.
Print Assumptions C03_model_is_the_source_setReceived.

Theorem C03_model_is_the_source_delReceived : forall p f sz seq,
  valid_size sz -> 0 <= seq < 65536 -> g_len p = sz / 64 -> nack_rep sz p f ->
  nack_rep sz (g_nack_receiveLog_delReceived p sz seq) (ReceiveLog.del_recv f sz seq).
Proof. exact gen_nack_delReceived_eq. Qed.
Print Assumptions C03_model_is_the_source_delReceived.

Theorem C03_model_is_the_source_get : forall p f sz e st lc seq,
  valid_size sz -> 0 <= seq < 65536 -> nack_rep sz p f ->
  g_nack_receiveLog_get p sz e seq = ReceiveLog.get (ReceiveLog.mk_rlog f sz e st lc) seq.
Proof. exact gen_nack_get_eq. Qed.
Print Assumptions C03_model_is_the_source_get.

Theorem C03_model_is_the_source_fixLastConsecutive : forall p fm sz e lc,
  valid_size sz -> 0 <= lc < 65536 -> nack_rep sz p fm ->
  g_nack_receiveLog_fixLastConsecutive p sz e lc = ReceiveLog.fix_last fm sz e lc.
Proof. exact gen_nack_fixLastConsecutive_eq. Qed.
Print Assumptions C03_model_is_the_source_fixLastConsecutive.

(* receiveLog.add, all of it (loops included): the four fields it writes *)
Theorem C03_model_is_the_source_add : forall p fm sz e st lc seq,
  valid_size sz -> 0 <= seq < 65536 -> 0 <= e < 65536 -> 0 <= lc < 65536 -> g_len p = sz / 64 -> nack_rep sz p fm ->
  let '(p', e', st', lc') := g_nack_receiveLog_add p sz e st lc seq in
  let m' := ReceiveLog.add (ReceiveLog.mk_rlog fm sz e st lc) seq in
  g_len p' = sz / 64 /\ nack_rep sz p' (ReceiveLog.bits m') /\ ReceiveLog.rsize m' = sz /\
  e' = ReceiveLog.rend m' /\ st' = ReceiveLog.started m' /\ lc' = ReceiveLog.lastc m'.
Proof. exact gen_nack_add_eq. Qed.
Print Assumptions C03_model_is_the_source_add.

(* ... and over every arrival history *)
Theorem C03_model_is_the_source_add_all : forall sz l,
  valid_size sz -> Forall (fun s => 0 <= s < 65536) l ->
  forall p fm e st lc, 0 <= e < 65536 -> 0 <= lc < 65536 -> g_len p = sz / 64 -> nack_rep sz p fm ->
  let '(p', e', st', lc') := fold_left (g_add_st sz) l (p, e, st, lc) in
  let m' := ReceiveLog.add_all (ReceiveLog.mk_rlog fm sz e st lc) l in
  g_len p' = sz / 64 /\ nack_rep sz p' (ReceiveLog.bits m') /\ ReceiveLog.rsize m' = sz /\
  e' = ReceiveLog.rend m' /\ st' = ReceiveLog.started m' /\ lc' = ReceiveLog.lastc m'.
Proof. exact gen_nack_add_all_eq. Qed.
Print Assumptions C03_model_is_the_source_add_all.

(* receiveLog.missingSeqNumbers: what the generator requests; buf is the caller's scratch buffer,
   large enough for the answer *)
Theorem C03_model_is_the_source_missingSeqNumbers : forall p fm sz e st lc skip buf,
  valid_size sz -> 0 <= e < 65536 -> 0 <= lc < 65536 -> 0 <= skip < 65536 -> nack_rep sz p fm ->
  g_len (ReceiveLog.missing (ReceiveLog.mk_rlog fm sz e st lc) skip) <= g_len buf ->
  g_nack_receiveLog_missingSeqNumbers p sz e lc skip buf = ReceiveLog.missing (ReceiveLog.mk_rlog fm sz e st lc) skip.
Proof. exact gen_nack_missing_eq. Qed.
Print Assumptions C03_model_is_the_source_missingSeqNumbers.

(* no index out of range / division by zero anywhere in receive_log.go, for every accepted size *)
Theorem C03_source_no_panic_bitmap : forall p sz e seq,
  valid_size sz -> 0 <= seq < 65536 -> g_len p = sz / 64 ->
  g_nack_receiveLog_setReceived_safe p sz seq = true /\
  g_nack_receiveLog_delReceived_safe p sz seq = true /\
  g_nack_receiveLog_getReceived_safe p sz seq = true /\
  g_nack_receiveLog_get_safe p sz e seq = true.
Proof. exact gen_nack_bitmap_safe. Qed.
Print Assumptions C03_source_no_panic_bitmap.

Theorem C03_source_no_panic_add : forall p sz e st lc seq,
  valid_size sz -> 0 <= seq < 65536 -> g_len p = sz / 64 ->
  g_nack_receiveLog_add_safe p sz e st lc seq = true.
Proof. exact gen_nack_add_safe. Qed.
Print Assumptions C03_source_no_panic_add.

Theorem C03_source_no_panic_fixLastConsecutive : forall p sz e lc,
  valid_size sz -> g_len p = sz / 64 -> g_nack_receiveLog_fixLastConsecutive_safe p sz e lc = true.
Proof. exact gen_nack_fixLastConsecutive_safe. Qed.
Print Assumptions C03_source_no_panic_fixLastConsecutive.

Theorem C03_source_no_panic_missingSeqNumbers : forall p fm sz e st lc skip buf,
  valid_size sz -> 0 <= e < 65536 -> 0 <= lc < 65536 -> 0 <= skip < 65536 -> g_len p = sz / 64 -> nack_rep sz p fm ->
  g_len (ReceiveLog.missing (ReceiveLog.mk_rlog fm sz e st lc) skip) <= g_len buf ->
  g_nack_receiveLog_missingSeqNumbers_safe p sz e lc skip buf = true.
Proof. exact gen_nack_missing_safe. Qed.
Print Assumptions C03_source_no_panic_missingSeqNumbers.


(* ===================================== non-vacuity ======================================= *)
(* the hypotheses above are satisfiable: the states the constructors build *)
Example C03_tie_hypotheses_nonvacuous :
  (valid_size 64 /\ g_len [0] = 64 / 64 /\ nack_rep 64 [0] (fun _ => false)) /\
  (g_len (repeat 0 128) = 128 /\ rs_rep (repeat 0 128) (fun _ => false)) /\
  (exists k, 0 <= k /\ g_len (repeat 0 128) = 2 ^ k).
Proof. exact tie_hyps_nonvacuous. Qed.
Print Assumptions C03_tie_hypotheses_nonvacuous.
