(* C01, round-5 strengthening - statements only; proofs are in Proofs/StreamCfgProofs.v.

   "... every RTP/RTCP packet the application writes reaches the next writer exactly once, in
   order, with identical payload bytes and header fields (only the documented transport-wide-CC
   header extension may be added)" - for a chain that carries SEVERAL local streams whose
   StreamInfos negotiated DIFFERENT things.  "The documented extension" is the one under the ID the
   packet's own stream negotiated for transport-cc; an extension another stream's ID names is an
   application header field like any other.  Rounds 1-4 bound every stream of a case with one and
   the same StreamInfo (up to the SSRC), so a member that keeps per-stream configuration in
   interceptor-level state - the seeded header-extension interceptor stores the ID in a field: the
   stream bound LAST decides for all - was the code on every generated history.

   A. twcc.HeaderExtensionInterceptor over histories of BindLocalStream / Write (Model/StreamCfg.v):
      every Write reaches its binding's next writer, identical up to the extension under ITS
      stream's ID; the closure of a binding is Model/Chain.v's w_twcc_ext with that ID.  The seeded
      variant is refuted by Bind 5; Bind 3; Write through the first binding (abs-send-time under ID 3
      overwritten, nothing under ID 5) and agrees with the code on every history whose streams
      negotiated one ID (all the old harness and the library's tests generate).
   B. The differential check binds every stream with its own configuration: run_wops_c generalises
      round 4's run_wops_b; the oracle judges every Write with the configuration of the binding it
      went through (wops_spec_b), and reports the seed's observation as code 2.
   C. Any list of library members (as modelled), every binding with its own SSRC, transport-cc ID
      and nack feedback: transparent up to THAT binding's ID, other bindings untouched. *)
From IV Require Import Base.Word Model.TwccHdrExt Model.Chain Model.Rebind Model.StreamCfg.
From IV Require Import Proofs.ChainProofs Check.C01Check Proofs.TwccHdrExtProofs Proofs.ChainInstanceProofs
  Proofs.ChainR4Proofs Proofs.StreamCfgProofs.
Open Scope Z_scope.

(* ---- A ---- *)
Theorem C01e_hdrext_every_write_gets_its_streams_id : forall ops : list (hx_op pkt),
  hx_wf 0 ops -> Forall (fun sid => sid = 0 \/ 1 <= sid <= 14) (bound_ids ops) -> Forall Pok_x (written ops) ->
  Forall (fun o => let '(k, p, oq) := o in exists q, oq = Some q /\ upto_tcc (nth k (bound_ids ops) 0) p q)
         (hx_run set_tcc use_own hx0 ops).
Proof. exact hdrext_every_write_gets_its_streams_id. Qed.
Print Assumptions C01e_hdrext_every_write_gets_its_streams_id.

(* non-vacuity: the seed's history satisfies the hypotheses *)
Example C01e_hdrext_history_inhabited :
  hx_wf 0 seed_hist /\ Forall (fun sid => sid = 0 \/ 1 <= sid <= 14) (bound_ids seed_hist) /\
  Forall Pok_x (written seed_hist) /\
  hx_run set_tcc use_own hx0 seed_hist =
  [(0%nat, seed_pA, Some (mkH [2; 0; 0; 96; 0; 0; 10; 0] true PROFILE_ONE [(3, [18; 52; 86]); (5, [0; 0])], (256, 4)))].
Proof.
  split; [cbn; lia|]. split; [cbn; constructor; [right; lia|constructor; [right; lia|constructor]]|].
  split; [cbn; constructor; [right; left; reflexivity|constructor]|exact seed_hist_own].
Qed.
Print Assumptions C01e_hdrext_history_inhabited.

(* generic form: any packet type, any SetExtension that succeeds in scope *)
Theorem C01e_hdrext_every_write_gets_its_streams_id_generic :
  forall (P : Type) (set_tcc : Z -> Z -> P -> option P) (upto : Z -> P -> P -> Prop) (Pok : P -> Prop) (sid_ok : Z -> Prop),
  (forall sid p, upto sid p p) ->
  (forall sid n p, sid_ok sid -> Pok p -> exists p', set_tcc sid n p = Some p' /\ upto sid p p') ->
  forall ops, hx_wf 0 ops -> Forall (fun sid => sid = 0 \/ sid_ok sid) (bound_ids ops) -> Forall Pok (written ops) ->
  Forall (fun o => let '(k, p, oq) := o in exists q, oq = Some q /\ upto (nth k (bound_ids ops) 0) p q)
         (hx_run set_tcc use_own hx0 ops).
Proof. exact hx_every_write_gets_its_streams_id. Qed.
Print Assumptions C01e_hdrext_every_write_gets_its_streams_id_generic.

(* the history model's Write is the chain model's closure with the ID the binding captured *)
Theorem C01e_hdrext_write_is_w_twcc_ext :
  forall (P : Type) (set_tcc : Z -> Z -> P -> option P) st k p log,
  let sid := nth k (hx_ids st) 0 in
  let r := w_twcc_ext set_tcc sid (list P) (logw P) p (mkWs (hx_ctr st) log, []) in
  w_ctr (fst (fst r)) = hx_ctr (fst (hx_write set_tcc use_own st k p)) /\
  snd (fst r) = match snd (hx_write set_tcc use_own st k p) with Some q => [q] | None => [] end.
Proof. exact hx_write_is_w_twcc_ext. Qed.
Print Assumptions C01e_hdrext_write_is_w_twcc_ext.

(* the seeded variant (ID in a field of the interceptor, stored by every Bind) *)
Theorem C01e_shared_id_field_refuted :
  hx_run set_tcc use_field hx0 seed_hist =
    [(0%nat, seed_pA, Some (mkH [2; 0; 0; 96; 0; 0; 10; 0] true PROFILE_ONE [(3, [0; 0])], (256, 4)))] /\
  ~ (Forall (fun o => let '(k, p, oq) := o in exists q, oq = Some q /\ upto_tcc (nth k (bound_ids seed_hist) 0) p q)
            (hx_run set_tcc use_field hx0 seed_hist)).
Proof. exact seed_hist_field_refuted. Qed.
Print Assumptions C01e_shared_id_field_refuted.

Theorem C01e_shared_id_field_invisible_when_ids_agree :
  forall (P : Type) (set_tcc : Z -> Z -> P -> option P) x ops,
  Forall (fun s => s = 0 \/ s = x) (bound_ids ops) ->
  hx_run set_tcc use_field hx0 ops = hx_run set_tcc use_own hx0 ops.
Proof. exact hx_field_invisible_when_ids_agree. Qed.
Print Assumptions C01e_shared_id_field_invisible_when_ids_agree.

(* ---- B ---- *)
Theorem C01e_run_c_generalises_run_b : forall cf ms tbl ssrcs ops bsts vias,
  run_wops_c cf ms tbl (map (with_ssrc cf) ssrcs) bsts ops vias = run_wops_b cf ms tbl ssrcs bsts ops vias.
Proof. exact run_wops_c_generalises_b. Qed.
Print Assumptions C01e_run_c_generalises_run_b.

Theorem C01e_binding_configurations : forall cf ssrcs bcs k,
  (k < length ssrcs)%nat -> length bcs = length ssrcs ->
  nth k (bind_cfgs cf ssrcs bcs) cf = with_bind cf (nth k ssrcs 0) (nth k bcs (0, false)).
Proof. exact bind_cfgs_nth. Qed.
Print Assumptions C01e_binding_configurations.

Theorem C01e_per_binding_oracle_iff : forall ht cf cfs tbl ops vias,
  wops_spec_b ht cf cfs tbl ops vias = 0%nat <->
  forall i, (i < length ops)%nat ->
    let ck := cfg_via cf cfs (nth i vias (0, [])) in
    wop_spec (sid_of ht ck) ck false tbl (nth i ops (0, [], [], (0, []))) = 0%nat.
Proof. exact wops_spec_b_zero_iff. Qed.
Print Assumptions C01e_per_binding_oracle_iff.

(* the oracle on the seed's observation (stream A: ID 5, stream B: ID 3, a Write through A): what the
   seeded variant sends is code 2, what the code sends passes *)
Theorem C01e_per_binding_oracle_rejects_seed_shape :
  let cfA : cfg := (10, 5, false, false, 0, 0) in
  let cfB : cfg := (11, 3, false, false, 0, 0) in
  let tbl := [seed_pA; (mkH [2; 0; 0; 96; 0; 0; 10; 0] true PROFILE_ONE [(3, [0; 0])], (256, 4));
              (mkH [2; 0; 0; 96; 0; 0; 10; 0] true PROFILE_ONE [(3, [18; 52; 86]); (5, [0; 0])], (256, 4))] in
  wops_spec_b true cfA [cfA; cfB] tbl [(0, [(20, [])], [1], (20, []))] [(0, [])] = 2%nat /\
  wops_spec_b true cfA [cfA; cfB] tbl [(0, [(20, [])], [2], (20, []))] [(0, [])] = 0%nat.
Proof. exact oracle_rejects_seed_shape. Qed.
Print Assumptions C01e_per_binding_oracle_rejects_seed_shape.

(* ---- C ---- *)
Theorem C01e_library_write_with_own_stream_config :
  forall (c : cfg) (ms : list member_desc) (ssrc : Z) (b : bcfg),
  fst b = 0 \/ 1 <= fst b <= 14 ->
  let ck := with_bind c ssrc b in
  forall S0 (d : S0) (tw : writer pkt S0) k ts sts p, Pok_c ck p -> (k < length ts)%nat ->
  exists p' inj sts' extra, upto_tcc (fst b) p p' /\ Pok_c ck p' /\ Forall (Pok_c ck) inj /\
    chain_bind (map (wr_of ck) ms) (writer_at d k tw) p (sts, ts) =
      ((sts', set_nth k (fst (run_list tw (p' :: inj) (nth k ts d))) ts),
       (fst (hdres (snd (run_list tw (p' :: inj) (nth k ts d)))),
        snd (hdres (snd (run_list tw (p' :: inj) (nth k ts d)))) ++ extra)) /\
    incl extra (flat_map snd (tl (snd (run_list tw (p' :: inj) (nth k ts d))))).
Proof. exact library_write_with_own_stream_config. Qed.
Print Assumptions C01e_library_write_with_own_stream_config.

Theorem C01e_library_write_with_own_stream_config_leaves_others_alone :
  forall (c : cfg) (ms : list member_desc) (ssrc : Z) (b : bcfg),
  fst b = 0 \/ 1 <= fst b <= 14 ->
  let ck := with_bind c ssrc b in
  forall S0 (d : S0) (tw : writer pkt S0) k ts sts p j, Pok_c ck p -> (k < length ts)%nat -> j <> k ->
  nth j (snd (fst (chain_bind (map (wr_of ck) ms) (writer_at d k tw) p (sts, ts)))) d = nth j ts d.
Proof. exact library_write_with_own_stream_config_leaves_others_alone. Qed.
Print Assumptions C01e_library_write_with_own_stream_config_leaves_others_alone.

(* non-vacuity: two streams with IDs 5 and 3 on [header extension; recording member]; a Write
   through the first binding carrying abs-send-time under ID 3 *)
Example C01e_two_streams_inhabited :
  let cA : cfg := with_bind (10, 0, false, false, 0, 0) 10 (5, false) in
  let ms : list member_desc := [(6, []); (15, [])] in
  snd (fst (chain_bind (map (wr_of cA) ms) (writer_at ([], []) 0 script_writer) seed_pA
                       (init_ws ms, [([], []); ([], [])]))) =
  [([], [(mkH [2; 0; 0; 96; 0; 0; 10; 0] true PROFILE_ONE [(3, [18; 52; 86]); (5, [0; 0])], (256, 4))]); ([], [])].
Proof. vm_compute. reflexivity. Qed.
Print Assumptions C01e_two_streams_inhabited.
