(* C10 (deepening round) - Interceptors are free of data races under every permitted concurrent use.
   Statements only.  Label: PARTIAL (as C10.v: the faithfulness of the table is trusted).

   Two shapes of violations that the table of the first round could not express are now rows
   of the table (tools/lockscan/rules.go):
     SPLIT READ-MODIFY-WRITE - a value read from a field in one critical section of a mutex and
       written back in a later, separate critical section of the same mutex: every access is
       locked, yet updates are lost.  Printed as ONE rmw row naming only the locks held
       continuously from the read to the write.
     USE AFTER RELEASE - header/payload of a reference-counted packet used after Release():
       printed as a read WITHOUT the virtual lock of the reference-count protocol.
   The theorems say what these rows mean on the abstract machine and that the unchanged
   checker [drf_ok] decides them. *)
From Coq Require Import ZArith List Bool String.
From IV Require Import Model.LockTable Proofs.LockTableProofs Proofs.LockTableMore Generated.AccessTable.
From IV Require Properties.C10.
Import ListNotations.
Open Scope Z_scope.

(* The generalised machine: as the machine of C10.v, but a thread that is inside an access may
   release (and take again) every lock the access's row does not name.  No data race. *)
Theorem C10b_lockset_drf_locks_dropped_mid_access :
  forall (tbl : list row) (creator : nat) (cthread : Z -> nat) (mem0 : Z -> Z),
  drf_ok tbl = true ->
  forall s, greachable tbl creator cthread mem0 s ->
  forall t1 t2 r1 r2, t1 <> t2 -> active s t1 = Some r1 -> active s t2 = Some r2 ->
  conflict r1 r2 = false.
Proof. exact glockset_drf. Qed.
Print Assumptions C10b_lockset_drf_locks_dropped_mid_access.

(* ... and no lost update: a read-modify-write whose thread drops and re-takes other locks between
   its read and its write (the split rmw, printed as one row) still adds exactly one *)
Theorem C10b_split_rmw_not_lost :
  forall (tbl : list row) (creator : nat) (cthread : Z -> nat) (mem0 : Z -> Z),
  drf_ok tbl = true ->
  forall l, counter_loc tbl l = true ->
  forall s, greachable tbl creator cthread mem0 s -> mem s l = mem0 l + incs s l.
Proof. exact grmw_not_lost. Qed.
Print Assumptions C10b_split_rmw_not_lost.

(* the generalised machine has all the behaviours of the machine of C10.v *)
Theorem C10b_generalised_machine_contains_machine :
  forall (tbl : list row) (creator : nat) (cthread : Z -> nat) (mem0 : Z -> Z) s,
  reachable tbl creator cthread mem0 s -> greachable tbl creator cthread mem0 s.
Proof. exact reachable_greachable. Qed.
Print Assumptions C10b_generalised_machine_contains_machine.

(* the checker rejects the row rule SPLIT-RMW prints, unless a lock other than the dropped one is
   held exclusively from the read to the write (or the thread class makes the row single-threaded) *)
Theorem C10b_split_rmw_row_rejected :
  forall t r, In r t -> r_kind r = KRmw -> r_class r = CAny ->
  (forall l m, In (l, m) (r_locks r) -> m = LR) ->
  drf_ok t = false.
Proof. exact drf_ok_rejects_rmw_without_exclusive_lock. Qed.
Print Assumptions C10b_split_rmw_row_rejected.

(* why the rule is needed: the table printed before it (the two halves as a read row and a write row,
   each under the mutex) is accepted by drf_ok, its location is not a counter location - so
   C10_rmw_not_lost says nothing - and the machine overwrites a completed increment *)
Theorem C10b_separate_read_and_write_rows_lose_update_refuted :
  drf_ok split_tbl = true /\
  counter_loc split_tbl 0 = false /\
  exists s, reachable split_tbl 0%nat (fun _ => 0%nat) (fun _ => 0) s
            /\ incs s 0 = 1 /\ mem s 0 = 1
            /\ (forall t, active s t = None) /\ (forall l, holders s l = []).
Proof. exact split_rows_admit_lost_update. Qed.
Print Assumptions C10b_separate_read_and_write_rows_lose_update_refuted.

(* non-vacuity of the generalised machine: the split access really is ONE access during which the
   mutex is free - another thread gets inside a conflicting access meanwhile (table rejected) *)
Theorem C10b_split_access_races_on_generalised_machine :
  drf_ok [split_one; split_inc] = false /\
  exists s, greachable [split_one; split_inc] 0%nat (fun _ => 0%nat) (fun _ => 0) s
            /\ active s 1%nat = Some split_one /\ active s 2%nat = Some split_inc
            /\ conflict split_one split_inc = true.
Proof. split; [exact split_rule_row_rejected | exact gmachine_split_access_is_a_race]. Qed.
Print Assumptions C10b_split_access_races_on_generalised_machine.

(* two atomic operations are not one: an atomic load row and an atomic store row are accepted (both
   atomic, no conflict) and nothing is claimed about the location; the rule prints a load whose value
   reaches a store as one non-atomic rmw row, which is rejected *)
Theorem C10b_atomic_load_then_store_is_not_atomic_rmw :
  let ld := mkRow 0 1 KARead [] CAny [] PTraffic [] String.EmptyString in
  let st := mkRow 0 1 KAWrite [] CAny [] PTraffic [] String.EmptyString in
  drf_ok [ld; st] = true /\ counter_loc [ld; st] 0 = false
  /\ drf_ok [ld; st; split_one] = false.
Proof. exact atomic_load_store_rows_accepted_but_not_counter. Qed.
Print Assumptions C10b_atomic_load_then_store_is_not_atomic_rmw.

(* ---- reference-count protocol (virtual lock T#owner) ---- *)

(* a row naming a lock is enabled / in progress only in a thread holding that lock: the virtual lock
   is honoured only between Retain (acquire) and Release *)
Theorem C10b_row_needs_its_locks :
  forall (tbl : list row) (creator : nat) (cthread : Z -> nat) s t r l m,
  row_ok tbl creator cthread s t r -> In (l, m) (r_locks r) -> exists m', In (t, m') (holders s l).
Proof. exact row_needs_its_locks. Qed.
Print Assumptions C10b_row_needs_its_locks.

(* while a thread holds a reference, no other thread is inside the recycling writes *)
Theorem C10b_reference_excludes_recycler :
  forall (tbl : list row) (creator : nat) (cthread : Z -> nat) (mem0 : Z -> Z),
  forall s, greachable tbl creator cthread mem0 s ->
  forall l t1 m1 t2 r, In (t1, m1) (holders s l) -> t1 <> t2 ->
  active s t2 = Some r -> In (l, LW) (r_locks r) -> False.
Proof. exact reference_excludes_recycler. Qed.
Print Assumptions C10b_reference_excludes_recycler.

(* the checker rejects the row rule USE-AFTER-RELEASE prints: a read without the virtual lock next to
   the recycler's write, whatever locks the writer holds *)
Theorem C10b_use_after_release_row_rejected :
  forall t rr rw, In rr t -> In rw t -> r_loc rr = r_loc rw ->
  r_kind rr = KRead -> r_locks rr = [] -> r_class rr = CAny ->
  (r_kind rw = KWrite \/ r_kind rw = KRmw) -> r_class rw = CAny ->
  drf_ok t = false.
Proof. exact drf_ok_rejects_unlocked_read_of_locked_write. Qed.
Print Assumptions C10b_use_after_release_row_rejected.

(* ---- caller memory that outlives the call (rule ESCAPING-CALLER-MEMORY) ---- *)

(* the rule prints the caller's next write to a retained parameter as a write row of class any without a
   lock; every such row (any non-atomic writer of class any with no exclusively held lock) is rejected *)
Theorem C10b_escaping_caller_memory_row_rejected :
  forall t r, In r t -> (r_kind r = KWrite \/ r_kind r = KRmw) -> r_class r = CAny ->
  (forall l m, In (l, m) (r_locks r) -> m = LR) ->
  drf_ok t = false.
Proof. exact drf_ok_rejects_write_any_without_exclusive_lock. Qed.
Print Assumptions C10b_escaping_caller_memory_row_rejected.

(* what acceptance guarantees: every non-atomic writing row that any thread may execute holds some lock
   exclusively *)
Theorem C10b_accepted_writer_holds_exclusive_lock :
  forall t r, drf_ok t = true -> In r t -> (r_kind r = KWrite \/ r_kind r = KRmw) -> r_class r = CAny ->
  exists l, In (l, LW) (r_locks r).
Proof. exact drf_ok_write_any_has_exclusive_lock. Qed.
Print Assumptions C10b_accepted_writer_holds_exclusive_lock.

(* ---- the instance on the regenerated table (partial: rests on the faithfulness of the table) ---- *)

Theorem C10b_interceptors_race_free_split_partial :
  forall (creator : nat) (cthread : Z -> nat) (mem0 : Z -> Z) s,
  greachable AccessTable.table creator cthread mem0 s ->
  (forall t1 t2 r1 r2, t1 <> t2 -> active s t1 = Some r1 -> active s t2 = Some r2 -> conflict r1 r2 = false)
  /\ (forall l, counter_loc AccessTable.table l = true -> mem s l = mem0 l + incs s l).
Proof.
  intros creator cthread mem0 s Hr. split.
  - exact (glockset_drf _ _ _ _ C10.C10_table_ok s Hr).
  - intros l Hc. exact (grmw_not_lost _ _ _ _ C10.C10_table_ok l Hc s Hr).
Qed.
Print Assumptions C10b_interceptors_race_free_split_partial.
