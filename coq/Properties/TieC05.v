(* Source ties of C05, statements only.  Every theorem says that a hand-written model function that the
   property theorems are about IS (equal to, or refined by under the stated representation of
   the state) the Gallina definition that tools/go2coq regenerates from the Go source on this run
   (coq/Generated/GoCoresC05.v).  Proofs: coq/Proofs/GeneratedEqC05.v.  The theorem name starts with
   the id of the property it belongs to.

   Conventions.  uintN parameters carry their range hypothesis 0 <= x < 2^N explicitly.
   [bits_of p q] is bit q mod 64 of word q / 64 of the []uint64 bitmap p; [nack_rep sz p f] /
   [rs_rep p f] say that the model's bitmap f (position -> bool) is p read bit by bit;
   [chunk_of] is the model's record for a Go chunk {hasLargeDelta, hasDifferentTypes, deltas}.
   time.Time is the model's [option Z], float64 any type (both are only copied by the functions
   concerned).  g_f_safe = true: the Go function does not panic on these inputs. *)
From IV Require Import Base.Word.
From IV Require Model.ReceiveLog Proofs.ReceiveLogProofs Model.ReceiverStream Model.SenderStream Model.TwccChunk
  Model.ArrivalMap Model.Flexfec Model.GccDecision Model.MemBound Model.PriorityQueue Model.JitterBuffer Spec.FlexfecSpec.
From IV Require Import Base.GoPrelude Proofs.GoPreludeProofs Generated.GoCoresC05 Proofs.GeneratedEqC05.
Import ReceiveLogProofs.

(* pkg/twcc/twcc.go (chunk, feedback.setBase), pkg/twcc/arrival_time_map.go *)

Theorem C05_model_is_the_source_canAdd : forall large diff deltas d,
  g_twcc_chunk_canAdd large diff deltas d = TwccChunk.can_add (chunk_of large diff deltas) d.
Proof. exact gen_twcc_canAdd_eq. Qed.
Print Assumptions C05_model_is_the_source_canAdd.

Theorem C05_model_is_the_source_chunk_add : forall large diff deltas d,
  let '(l', d', ds') := g_twcc_chunk_add large diff deltas d in
  chunk_of l' d' ds' = TwccChunk.chunk_add (chunk_of large diff deltas) d.
Proof. exact gen_twcc_chunk_add_eq. Qed.
Print Assumptions C05_model_is_the_source_chunk_add.

Theorem C05_source_no_panic_chunk : forall large diff deltas d,
  g_twcc_chunk_canAdd_safe large diff deltas d = true /\ g_twcc_chunk_add_safe large diff deltas d = true.
Proof. exact gen_twcc_chunk_safe. Qed.
Print Assumptions C05_source_no_panic_chunk.

Theorem C05_model_is_the_source_setBase : forall seq t,
  g_twcc_feedback_setBase seq t =
    (TwccChunk.f_base (TwccChunk.fb_new seq t), TwccChunk.f_ref (TwccChunk.fb_new seq t),
     TwccChunk.f_last (TwccChunk.fb_new seq t), TwccChunk.f_next (TwccChunk.fb_new seq t)).
Proof. exact gen_twcc_setBase_eq. Qed.
Print Assumptions C05_model_is_the_source_setBase.

Theorem C05_model_is_the_source_Clamp : forall a b e ent sn,
  g_twcc_packetArrivalTimeMap_Clamp b e sn = ArrivalMap.am_clamp (ArrivalMap.mkAmap a b e ent) sn.
Proof. exact gen_twcc_Clamp_eq. Qed.
Print Assumptions C05_model_is_the_source_Clamp.

(* get / index / capacity on the concrete circular buffer; the capacity is a power of two
   (Proofs/ArrivalMapPow2.v proves that for every reachable map) *)
Theorem C05_model_is_the_source_get : forall buf b e sn,
  (exists k, 0 <= k /\ g_len buf = 2 ^ k) ->
  g_twcc_packetArrivalTimeMap_get buf b e sn = ArrivalMap.cm_get (ArrivalMap.mkCmap buf b e) sn /\
  g_twcc_packetArrivalTimeMap_get_safe buf b e sn = true.
Proof. exact gen_twcc_get_eq. Qed.
Print Assumptions C05_model_is_the_source_get.

Theorem C05_model_is_the_source_HasReceived : forall buf b e sn,
  (exists k, 0 <= k /\ g_len buf = 2 ^ k) ->
  g_twcc_packetArrivalTimeMap_HasReceived buf b e sn = (ArrivalMap.cm_get (ArrivalMap.mkCmap buf b e) sn >=? 0) /\
  g_twcc_packetArrivalTimeMap_HasReceived_safe buf b e sn = true.
Proof. exact gen_twcc_HasReceived_eq. Qed.
Print Assumptions C05_model_is_the_source_HasReceived.

Theorem C05_model_is_the_source_setNotReceived : forall buf b e a z,
  (exists k, 0 <= k /\ g_len buf = 2 ^ k) ->
  g_twcc_packetArrivalTimeMap_setNotReceived buf a z =
    ArrivalMap.cm_buf (ArrivalMap.cm_set_not_received (ArrivalMap.mkCmap buf b e) a z).
Proof. exact gen_twcc_setNotReceived_eq. Qed.
Print Assumptions C05_model_is_the_source_setNotReceived.

Theorem C05_model_is_the_source_reallocate : forall old b e j,
  (e <= b \/ exists k, 0 <= k /\ g_len old = 2 ^ k) -> 0 <= j ->
  g_twcc_packetArrivalTimeMap_reallocate old b e (2 ^ j) =
    ArrivalMap.cm_buf (ArrivalMap.cm_reallocate (ArrivalMap.mkCmap old b e) (2 ^ j)).
Proof. exact gen_twcc_reallocate_eq. Qed.
Print Assumptions C05_model_is_the_source_reallocate.

