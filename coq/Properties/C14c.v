(* C14, round-3 strengthening.  Statements only; proofs are in Proofs/FlexfecAlias.v.

   Vocabulary (Model/Flexfec3.v).  The caller of the writer returned by FecInterceptor.BindLocalStream
   owns numbered arrays of three kinds: []uint32 (CSRC arrays), []rtp.Extension (entries: id and a payload
   slice) and []byte (extension payloads, payloads, read buffers); a [slice] is (array, offset, length).
   Events [cev]: the caller writes into one of its arrays at any offset (CW / CE / CB), or calls
   Write(&header, payload) (CWrite) with header = scalar fields by value + a CSRC slice + an Extensions
   slice and payload = a byte slice.  [cpol] says which of the four parts (CSRC array, Extensions array,
   extension payloads, payload) the batch accumulator copies; [deep] = Header.Clone() + payload copy (the
   code), [shallow_header] = `Header: *header` + payload copy.  [ic_run marshal pol st s evs] = the results
   of the Writes of the history; EncodeFec reads the held packets through the store as it is when the batch
   completes.  [ic_values marshal st evs] = the wire form of every written packet AT THE TIME OF ITS WRITE
   (what went on the wire).  [marshal] = pion/rtp's Marshal, ANY function in the first two theorems;
   [rtp_marshal] (fixed header, CSRCs, one-byte extensions, payload) in the refutations.
   [i_run2] is the value-level interceptor of Model/Flexfec2.v to which C14_interceptor_history_total,
   C14_interceptor_batch_any_n and, batch by batch, C14_recover_single_loss_any_n apply. *)
From IV Require Import Base.Word Model.Flexfec Model.Flexfec2 Model.Flexfec3 Spec.FlexfecSpec
  Proofs.FlexfecAlias.

(* With Clone + payload copy the repair packets protect what went on the wire, whatever the caller does
   with the memory behind its header and payload between the Writes - every history of array writes and
   Writes, every aliasing between the slices it hands over (one array for all packets, extension payloads
   and payload inside one read buffer, ...), every marshalling function *)
Theorem C14_interceptor_clone_isolates : forall marshal evs st s, closed_buf s ->
  ic_run marshal deep st s evs = i_run2 (abs_ic marshal s st) (ic_values marshal st evs).
Proof. exact ic_deep_isolates. Qed.
Print Assumptions C14_interceptor_clone_isolates.

(* the same from a newly bound stream (no hypothesis) *)
Theorem C14_interceptor_clone_isolates_fresh : forall marshal evs st nm nf ssrc e,
  ic_run marshal deep st {| ic_nm := nm; ic_nf := nf; ic_ssrc := ssrc; ic_enc := e; ic_buf := [] |} evs =
  i_run2 {| i_nm := nm; i_nf := nf; i_ssrc := ssrc; i_enc := e; i_buf := [] |} (ic_values marshal st evs).
Proof. exact ic_deep_isolates_fresh. Qed.
Print Assumptions C14_interceptor_clone_isolates_fresh.

(* EVERY partial copy is refuted (fifteen policies, among them `Header: *header` with the payload copied,
   Clone without the payload copy, a Clone that shares the extension payloads): a sender with one header
   and one payload buffer rewritten in place, two media packets per repair packet - the result differs
   from the value-level interceptor, the repair packet names packets 0 and 1 and the receiver that lost
   packet 0 does not get it back *)
Theorem C14_partial_copy_refuted : forall pol, is_deep pol = false ->
  ic_run rtp_marshal pol cstore0 reuse_s0 reuse_evs <>
    i_run2 (abs_ic rtp_marshal reuse_s0 cstore0) reuse_media /\
  exists p r h,
    nth 1 (ic_run rtp_marshal pol cstore0 reuse_s0 reuse_evs) Panic = Ok [OMedia p; ORepair r] /\
    parse03 (r_payload r) = Some h /\ f_pos h = [0; 1] /\ ~ recovers reuse_media (r_payload r) h 0.
Proof. exact partial_copy_refuted. Qed.
Print Assumptions C14_partial_copy_refuted.

(* non-vacuity of the above: on the same history the code (deep) emits a repair packet that recovers both *)
Theorem C14_deep_copy_recovers :
  exists p r h,
    nth 1 (ic_run rtp_marshal deep cstore0 reuse_s0 reuse_evs) Panic = Ok [OMedia p; ORepair r] /\
    parse03 (r_payload r) = Some h /\ f_pos h = [0; 1] /\
    recovers reuse_media (r_payload r) h 0 /\ recovers reuse_media (r_payload r) h 1.
Proof. exact deep_copy_recovers. Qed.
Print Assumptions C14_deep_copy_recovers.

(* `Header: *header` against a sender that replaces the extension with SetExtension (the new payload slice
   is stored into the shared Extensions array; no byte of the old payload is touched) *)
Theorem C14_shallow_header_setext_refuted :
  let media := ic_values rtp_marshal cstore0 reuse_evs_setext in
  ic_run rtp_marshal shallow_header cstore0 reuse_s0 reuse_evs_setext <>
    i_run2 (abs_ic rtp_marshal reuse_s0 cstore0) media /\
  exists p r h,
    nth 1 (ic_run rtp_marshal shallow_header cstore0 reuse_s0 reuse_evs_setext) Panic = Ok [OMedia p; ORepair r] /\
    parse03 (r_payload r) = Some h /\ f_pos h = [0; 1] /\ ~ recovers media (r_payload r) h 0.
Proof. exact shallow_header_setext_refuted. Qed.
Print Assumptions C14_shallow_header_setext_refuted.
