(* C19, round-3 strengthening: several goroutines on one recorder.
   Statements only; proofs are in Proofs/StatsConcProofs.v (and Check/C19cCheck.v
   for the oracle lemmas).

   The property quantifies over ALL INTERLEAVINGS of incoming / outgoing RTP and
   RTCP.  Properties/C19.v proves every statistic equal to the recount for every
   HISTORY - a history being the order in which the recorder's mutex admitted
   the calls.  When the calls come from several goroutines that order is not
   known to the caller; what the caller knows is what each goroutine queued
   ([interleaving ths evs], Spec/StatsConcSpec.v: every call is one atomic step,
   program order kept per goroutine, arbitrary between goroutines).  The
   statements below say which part of the statistics is then still determined:
   the thirteen running COUNTERS ([counters], [recount]) are a commutative fold
   over the history, hence the same for every interleaving and equal to the
   recount of everything that was queued, in whatever order the threads are laid
   end to end; and they never decrease along a history, so a query made while
   the goroutines run never shows less than an earlier query.  The remaining
   figures (packets lost, last-report figures, round-trip times) do depend on
   the order (C19c_lost_is_order_dependent) and are covered per history by
   Properties/C19.v.

   This is what the concurrent correspondence set c19conc (Check/C19cCheck.v)
   decides: a recorder whose read-modify-write of the statistics is not atomic
   (a lost update) ends with counters below the recount of what was queued
   whatever the interleaving was, or shows a counter going backwards. *)
From IV Require Import Base.Word Model.Unwrapper Model.Ntp Model.StatsRecorder Spec.StatsSpec Spec.StatsConcSpec
  Proofs.StatsProofs Proofs.StatsConcProofs Check.C19Check Check.C19cCheck.
From Coq Require Import Permutation.

(* the counters of the recorder after any history are the recount of that history
   (the thirteen counter clauses of Properties/C19.v as one vector) *)
Theorem C19c_counters_are_recount : forall F (fzero : F) ku kj krj kf kd kn ssrc rate evs,
  counters (run fzero ku kj krj kf kd kn ssrc rate evs) = recount ssrc evs.
Proof. intros. exact (counters_run fzero ku kj krj kf kd kn ssrc rate evs). Qed.
Print Assumptions C19c_counters_are_recount.

(* the recount does not see the order of the events ... *)
Theorem C19c_recount_order_independent : forall s evs evs',
  Permutation evs evs' -> recount s evs = recount s evs'.
Proof. exact recount_perm. Qed.
Print Assumptions C19c_recount_order_independent.

(* ... so the counter part of the model is a commutative fold: any two orders of
   the same calls leave the same counters *)
Theorem C19c_counters_order_independent : forall F (fzero : F) ku kj krj kf kd kn ssrc rate evs evs',
  Permutation evs evs' ->
  counters (run fzero ku kj krj kf kd kn ssrc rate evs) = counters (run fzero ku kj krj kf kd kn ssrc rate evs').
Proof. intros F fzero ku kj krj kf kd kn ssrc rate evs evs'. exact (counters_perm fzero ku kj krj kf kd kn ssrc rate evs evs'). Qed.
Print Assumptions C19c_counters_order_independent.

(* an interleaving of threads is a permutation of the threads laid end to end *)
Theorem C19c_interleaving_is_permutation : forall ths evs,
  interleaving ths evs -> Permutation (concat ths) evs.
Proof. exact interleaving_perm. Qed.
Print Assumptions C19c_interleaving_is_permutation.

(* THE CONSERVATION STATEMENT: whatever the interleaving of the goroutines'
   calls was, after the last call the counters equal the recount of everything
   that was queued (the threads laid end to end) *)
Theorem C19c_concurrent_counters_are_recount : forall F (fzero : F) ku kj krj kf kd kn ssrc rate ths evs,
  interleaving ths evs ->
  counters (run fzero ku kj krj kf kd kn ssrc rate evs) = recount ssrc (concat ths).
Proof. intros F fzero ku kj krj kf kd kn ssrc rate ths evs. exact (counters_interleaving fzero ku kj krj kf kd kn ssrc rate ths evs). Qed.
Print Assumptions C19c_concurrent_counters_are_recount.

(* two runs of the same goroutines agree on the counters, however they were scheduled *)
Theorem C19c_counters_schedule_independent : forall F (fzero : F) ku kj krj kf kd kn ssrc rate ths evs evs',
  interleaving ths evs -> interleaving ths evs' ->
  counters (run fzero ku kj krj kf kd kn ssrc rate evs) = counters (run fzero ku kj krj kf kd kn ssrc rate evs').
Proof. intros F fzero ku kj krj kf kd kn ssrc rate ths evs evs'. exact (counters_two_interleavings fzero ku kj krj kf kd kn ssrc rate ths evs evs'). Qed.
Print Assumptions C19c_counters_schedule_independent.

(* the quantifier is not empty: running the threads one after the other is an interleaving
   (this is the history the checker conc_mismatches executes the model on) *)
Theorem C19c_sequential_is_an_interleaving : forall ths, interleaving ths (concat ths).
Proof. exact interleaving_sequential. Qed.
Print Assumptions C19c_sequential_is_an_interleaving.

(* non-vacuity with a genuinely mixed order: goroutine A sends two packets of stream 7,
   goroutine B feeds a compound with a PLI for another stream and a NACK for stream 7
   in between; 2 packets / 224 bytes / 24 header bytes sent, 1 NACK received *)
Example C19c_interleaving_example :
  let a := [OutRTP 5 7 100 12 100; OutRTP 5 7 101 12 100] in
  let b := [InRTCP 5 [PPli 99 8; PNack 99 7]] in
  let evs := [OutRTP 5 7 100 12 100; InRTCP 5 [PPli 99 8; PNack 99 7]; OutRTP 5 7 101 12 100] in
  interleaving [a; b] evs /\
  recount 7 (concat [a; b]) = [0; 0; 0; 2; 224; 24; 0; 0; 0; 0; 0; 1; 0].
Proof.
  cbv zeta. split; [|reflexivity].
  apply (il_step [] [OutRTP 5 7 101 12 100] [[InRTCP 5 [PPli 99 8; PNack 99 7]]]).
  apply (il_step [[OutRTP 5 7 101 12 100]] [] []).
  apply (il_step [] [] [[]]).
  apply il_done. repeat constructor.
Qed.
Print Assumptions C19c_interleaving_example.

(* at every query while the goroutines run: the history so far is a prefix of the
   final one, and no counter of a prefix exceeds the counter of the whole (byte
   counts being non-negative, fewer than 2^32 RTCP packets per direction) *)
Theorem C19c_counters_monotone : forall F (fzero : F) ku kj krj kf kd kn ssrc rate evs more,
  Forall sizes_nonneg more -> fb_no_wrap (evs ++ more) ->
  counters_le (counters (run fzero ku kj krj kf kd kn ssrc rate evs))
              (counters (run fzero ku kj krj kf kd kn ssrc rate (evs ++ more))).
Proof.
  intros F fzero ku kj krj kf kd kn ssrc rate evs more H1 H2.
  rewrite !(counters_run fzero ku kj krj kf kd kn ssrc rate). exact (recount_monotone ssrc evs more H1 H2).
Qed.
Print Assumptions C19c_counters_monotone.

(* why only the counters: packets lost depends on the order of arrival (first = the
   FIRST packet's sequence number), so it is not determined by the threads alone *)
Example C19c_lost_is_order_dependent :
  let e1 := InRTP 10 7 5 0 12 100 in
  let e2 := InRTP 10 7 3 0 12 100 in
  Permutation [e1; e2] [e2; e1] /\
  spec_in_lost 7 [e1; e2] = -1 /\ spec_in_lost 7 [e2; e1] = 1 /\
  recount 7 [e1; e2] = recount 7 [e2; e1].
Proof. cbv zeta. split; [apply perm_swap|]. repeat split; reflexivity. Qed.
Print Assumptions C19c_lost_is_order_dependent.

(* a compressed thread of the harness: a segment of n calls is n events, the k-th of
   them carrying sequence number seq+k (mod 2^16) and RTP timestamp rtpts+3000k (mod 2^32) *)
Theorem C19c_segment_length : forall n e, length (expand_seg (n, e)) = Z.to_nat n.
Proof. intros n e. exact (calls_length (Z.to_nat n) e). Qed.
Print Assumptions C19c_segment_length.

Theorem C19c_segment_kth_call : forall n e k,
  rtp_fields_in_range e -> (k < Z.to_nat n)%nat ->
  nth_error (expand_seg (n, e)) k = Some (bump (Z.of_nat k) e).
Proof. exact expand_seg_nth. Qed.
Print Assumptions C19c_segment_kth_call.

(* the counters of the model do not depend on the float kernels (the concurrent
   correspondence executes the model with trivial ones) *)
Theorem C19c_counters_kernel_independent :
  forall F (fzero : F) ku kj krj kf kd kn G (gzero : G) ku' kj' krj' kf' kd' kn' ssrc rate evs,
  counters (run fzero ku kj krj kf kd kn ssrc rate evs) = counters (run gzero ku' kj' krj' kf' kd' kn' ssrc rate evs).
Proof.
  intros. rewrite (counters_run fzero ku kj krj kf kd kn ssrc rate), (counters_run gzero ku' kj' krj' kf' kd' kn' ssrc rate).
  reflexivity.
Qed.
Print Assumptions C19c_counters_kernel_independent.

(* the oracle bin/check applies to the implementation's read after the join is
   exactly "the counters equal the recount of everything queued" ... *)
Theorem C19c_oracle_iff : forall s evs o, conc_counts_ok s evs o = true <-> obs_counters o = recount s evs.
Proof. exact conc_counts_ok_iff. Qed.
Print Assumptions C19c_oracle_iff.

(* ... and failure code 0 of a case implies it for the case's last read *)
Theorem C19c_oracle_zero_implies_recount : forall s rate ths ds,
  conc_spec_code (s, rate, ths, ds) = 0%nat ->
  exists final, last_opt (expand obs0 ds) = Some final /\ obs_counters final = recount s (all_events ths).
Proof. exact conc_spec_code_zero. Qed.
Print Assumptions C19c_oracle_zero_implies_recount.

(* the lost update of a recorder that walks an incoming compound on a snapshot taken
   before, and stored after, another goroutine's RTP packet was recorded: the NACK is
   there, the packet is not - the oracle answers code 4 (packets sent); and a counter
   that goes backwards between two reads answers code 20 *)
Example C19c_lost_update_is_flagged :
  let ths := [[(1, OutRTP 5 7 100 12 100)]; [(1, InRTCP 5 [PPli 99 8; PNack 99 7])]] in
  conc_spec_code (7, 90000, ths, [[UZ 10 1]]) = 4%nat /\
  conc_spec_code (7, 90000, ths, [[UZ 7 1; UZ 8 112; UZ 9 12; UZ 10 1]]) = 0%nat /\
  conc_spec_code (7, 90000, ths, [[UZ 7 1; UZ 8 112; UZ 9 12]; [UZ 7 0; UZ 8 0; UZ 9 0; UZ 10 1];
                                  [UZ 7 1; UZ 8 112; UZ 9 12]]) = 20%nat.
Proof. cbv zeta. repeat split; vm_compute; reflexivity. Qed.
Print Assumptions C19c_lost_update_is_flagged.
