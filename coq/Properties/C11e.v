(* C11 - Lifecycle, round-5 strengthening.  Statements only.
   The clause "Close returns only after every goroutine the interceptor started has finished", over the OPTION
   dimension of "for every interceptor": a constructor option may replace a component that owns a goroutine
   (packetdump.PacketLog(custom) replaces the default packet logger and its loop).
   Model: Model/Ownership.v - the goroutine ledger of an interceptor: components (when they start how many
   goroutines; whether the interceptor keeps their handle, so that Close closes their close channel and waits on
   their WaitGroup), a labelled transition system over the same calls as Model/Lifecycle.v plus "goroutine i takes
   the close case of its select" and "wg.Wait returns".  Proofs: Proofs/OwnershipProofs.v.
   Every theorem with a trace quantifies over ALL traces (any number of callers, any interleaving, any length).
   PARTIAL (as in C11.v): the plans are hand-assigned from the source; the census runs of the harness (set c11o,
   Check/C11eCheck.v) compare them with the real code: goroutine counts of the process after the constructor,
   after every call and after Close, on every interceptor built by default and with every exported option. *)
From IV Require Import Base.Word Model.Lifecycle Model.Ownership Check.C11eCheck Proofs.OwnershipProofs.

(* Close returns only after every goroutine the interceptor started has finished: for every plan all of whose
   components are kept by the interceptor, in every reachable state in which a Close has returned nothing is alive *)
Theorem C11e_close_leaves_no_goroutine_partial : forall p tr s, all_owned p = true ->
  orun p (oinit p) tr = Some s -> o_close_ret s = true -> o_alive s = [].
Proof. exact close_leaves_nothing. Qed.
Print Assumptions C11e_close_leaves_no_goroutine_partial.

(* the premise holds for the plan of every interceptor in every configuration the harness builds
   (default, variants, option sets; PacketLog(custom) included) *)
Theorem C11e_plans_owned : forall iid vid, all_owned (plan_of iid vid) = true.
Proof. exact plans_owned. Qed.
Print Assumptions C11e_plans_owned.

Theorem C11e_packetdump_plans_owned : forall custom, all_owned (packetdump_plan custom) = true.
Proof. exact packetdump_plans_owned. Qed.
Print Assumptions C11e_packetdump_plans_owned.

(* non-vacuity: a plan with goroutines, a trace in which Close waits and then returns *)
Example C11e_nonvacuous : exists s,
  orun (gcc_plan true) (oinit (gcc_plan true))
       [OCall 0 (OBind 1); OCall 1 OClose; GExit 1; GExit 0; GExit 2; GResume 1] = Some s /\
  o_close_ret s = true /\ o_alive s = [] /\ length (o_alive (oinit (gcc_plan true))) = 3%nat.
Proof. eexists. split; [vm_compute; reflexivity|]. repeat split; reflexivity. Qed.
Print Assumptions C11e_nonvacuous.

(* a goroutine of a component the interceptor does NOT keep is alive in every continuation of every state
   (nothing closes its close channel) - any plan; an invariant, not a search *)
Theorem C11e_unowned_goroutine_never_finishes : forall p cont s s' i, In (i, false) (o_alive s) ->
  orun p s cont = Some s' -> In (i, false) (o_alive s').
Proof. exact unowned_never_finishes. Qed.
Print Assumptions C11e_unowned_goroutine_never_finishes.

(* the seeded change (seeded/C11-r5-2): NewPacketDumper starts the default logger although PacketLog(custom) was
   given and does not install it.  New; BindRTCPWriter; Bind 1; a packet; Close: Close has returned and a goroutine
   the interceptor started is alive in EVERY continuation *)
Theorem C11e_packetdump_stray_logger_refuted : exists tr s,
  orun (packetdump_stray_plan true) (oinit (packetdump_stray_plan true)) tr = Some s /\ o_close_ret s = true /\
  forall cont s', orun (packetdump_stray_plan true) s cont = Some s' -> o_alive s' <> [].
Proof. exact packetdump_stray_refuted. Qed.
Print Assumptions C11e_packetdump_stray_logger_refuted.

(* the seeded plan fails the premise exactly with the caller's logger; without the option it is /repo's plan *)
Theorem C11e_stray_plan_owned_iff : forall custom, all_owned (packetdump_stray_plan custom) = negb custom.
Proof. exact stray_plan_owned_iff. Qed.
Print Assumptions C11e_stray_plan_owned_iff.

(* what the census predicts for New; BindRTCPWriter; Bind 1; a packet; Close: seeded constructor with the caller's
   logger 1 goroutine throughout (also after Close) = what the harness observes on the seeded tree; /repo none;
   without the option both 1 until Close, then none *)
Theorem C11e_census_model_seeded :
  census_model (packetdump_stray_plan true) [OBindW; OBind 1; OTraffic 1] = [1; 1; 1; 1; 1] /\
  census_model (packetdump_plan true) [OBindW; OBind 1; OTraffic 1] = [0; 0; 0; 0; 0] /\
  census_model (packetdump_plan false) [OBindW; OBind 1; OTraffic 1] = [1; 1; 1; 1; 0] /\
  census_model (packetdump_stray_plan false) [OBindW; OBind 1; OTraffic 1] = [1; 1; 1; 1; 0].
Proof. exact census_model_seeded. Qed.
Print Assumptions C11e_census_model_seeded.

(* the oracle of the census runs reports no code exactly when every call returned and no goroutine the interceptor
   started was alive after a Close that returned *)
Theorem C11e_census_oracle_sound : forall iid vid ops obs gs,
  ocase_codes (iid, vid, ops, obs, gs) = [] <-> census_ok (ops ++ [OClose]) obs (tl gs).
Proof. exact census_oracle_sound. Qed.
Print Assumptions C11e_census_oracle_sound.
