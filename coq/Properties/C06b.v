(* C06, deepening round.  Statements only; proofs are in Proofs/ReportFloatMore.v (float layer
   for negative durations), Proofs/JitterAccum.v (accumulated jitter error, link to the stream
   model) and Proofs/ReceiverInterceptorMore.v (interceptor glue).

   (1) NON-MONOTONE CLOCKS.  receiverStream.processRTP computes
         D := now.Sub(lastRTPTimeTime).Seconds()*clockRate - float64(int32(ts - lastTS))
       and generateReport  uint32(now.Sub(lastSenderReportTime).Seconds() * 65536).
       With a clock that stepped backwards now.Sub(...) is a NEGATIVE Duration d; Seconds()
       truncates toward zero, the float sum and product are the negatives of those for |d|.
       - jitter: D = d*rate/1e9 - sdiff with the SIGNED arrival difference, exactly RFC 3550 A.8
         (D = (R_j - R_i) - (S_j - S_i)); the step theorem of C06Float is extended to both signs.
         The code follows the property text for such clocks.
       - DLSR: uint32 of a negative float converts through int64 and keeps the low 32 bits:
         DLSR = -|d|*65536/1e9 modulo 2^32 (within one unit).  The property text ("reflects the
         most recent sender report received") does not say what a negative delay should be; the
         modular value is the one for which the sender's round-trip computation A - LSR - DLSR
         (32-bit arithmetic) stays consistent.  Stated as what the code does; oracle code 9.
   (2) HISTORY-LEVEL accuracy of the jitter: over ANY number of steps the binary64 accumulator
       stays within 2^-46 * B + 2^-1067 of the exact rational recurrence (B = bound on
       |arrival difference in ticks| + |timestamp difference| per step), and the reported
       uint32 Jitter is at most 1 away from the floor of the exact recurrence.
   (3) INTERCEPTOR GLUE: several SSRCs, rebind freshness, Unbind, SR for an SSRC not bound. *)
From IV Require Import Base.Word Base.F64 Model.SenderStream Model.ReceiverStream
  Proofs.NtpFloatProofs Proofs.ReportFloatProofs Proofs.ReportFloatMore Proofs.JitterAccum
  Proofs.ReceiverInterceptorProofs Proofs.ReceiverInterceptorMore.
From Coq Require Import ZArith Reals List.
From Flocq Require Import Core.Core.
Open Scope Z_scope.

(* ---------- (1) non-monotone clocks ---------- *)

(* DLSR for every Duration of either sign (except the saturated MinDur): within one unit of
   (d * 65536) quot 1e9, modulo 2^32 *)
Theorem C06_dlsr_signed_within_one_unit_mod32 : forall d, - MaxDur <= d <= MaxDur ->
  Z.abs (s32 (dlsr_kernel d - exact_ticks d 65536)) <= 1.
Proof. exact dlsr_kernel_signed_bound. Qed.
Print Assumptions C06_dlsr_signed_within_one_unit_mod32.

Example C06_dlsr_negative_nonvacuous :
  dlsr_kernel (-1000000000) = 4294967296 - 65536 /\ dlsr_kernel (-15259) = 4294967296 - 1 /\ dlsr_kernel (-15258) = 0.
Proof. exact dlsr_kernel_neg_nonvacuous. Qed.
Print Assumptions C06_dlsr_negative_nonvacuous.

(* the jitter step on a negative arrival difference -d is the real-number model on (d, -sdiff) *)
Theorem C06_jitter_kernel_negative_is_real_model : forall j d rate sdiff,
  0 < d -> jit_range d rate (- sdiff) -> fin j -> (0 <= FR j <= 18446744073709551616)%R ->
  fin (jitter_kernel j (- d) rate sdiff) /\
  FR (jitter_kernel j (- d) rate sdiff) = jitR (FR j) d rate (- sdiff).
Proof. exact jitter_neg_link. Qed.
Print Assumptions C06_jitter_kernel_negative_is_real_model.

(* the step theorem for elapsed times of BOTH signs ([jit_step_ok_signed]: |d| <= MaxDur,
   rate < 2^32, |d|*rate/1e9 < 2^62, signed 32-bit sdiff, sdiff <> -2^31 when d < 0):
   finite, non-negative, at most 2^64, and within 2^-52 (|y| + |sdiff| + J) + 2^-1072 of the exact
   RFC 3550 A.8 step  J + (|y - sdiff| - J)/16,  y = d*rate/1e9 signed *)
Theorem C06_jitter_step_any_clock : forall j d rate sdiff,
  jit_step_ok_signed (d, rate, sdiff) -> fin j -> (0 <= FR j <= 18446744073709551616)%R ->
  let J' := jitter_kernel j d rate sdiff in
  let y := (IZR d * IZR rate / 1000000000)%R in
  fin J' /\ (0 <= FR J' <= 18446744073709551616)%R /\
  (Rabs (FR J' - jit_exact (FR j) d rate sdiff)
    <= / 4503599627370496 * (Rabs y + Rabs (IZR sdiff) + FR j) + bpow radix2 (-1072))%R.
Proof. exact jitter_kernel_step_signed. Qed.
Print Assumptions C06_jitter_step_any_clock.

Example C06_jitter_negative_nonvacuous :
  jitter_out (jitter_kernel jitter_zero (-20000000) 90000 160) = 122.
Proof. exact jitter_kernel_neg_nonvacuous. Qed.
Print Assumptions C06_jitter_negative_nonvacuous.

(* ---------- (2) accumulated error over a whole history ---------- *)

(* [jitter_fold] = the executable accumulator along a list of steps (elapsed ns, rate, sdiff),
   [jit_exact_fold] = the exact rational recurrence on the same steps, [acc_ok B] = the step is
   in range and |y| + |sdiff| <= B, [acc_K B] = 2^-46 * B + 32 * 2^-1072.
   For EVERY number of steps (geometric contraction 15/16 of the exact step): *)
Theorem C06_jitter_accumulated_error_bounded : forall B l, (0 <= B)%R -> Forall (acc_ok B) l ->
  let F := jitter_fold jitter_zero l in let E := jit_exact_fold 0%R l in
  fin F /\ (0 <= FR F <= 18446744073709551616)%R /\ (0 <= E <= B)%R /\ (Rabs (FR F - E) <= acc_K B)%R.
Proof. exact jitter_fold_accum. Qed.
Print Assumptions C06_jitter_accumulated_error_bounded.

(* for the reported field: B < 2^32 - 1 (no uint32 wrap) *)
Theorem C06_reported_jitter_within_one_of_exact : forall B l,
  (0 <= B <= 4294967294)%R -> Forall (acc_ok B) l ->
  Z.abs (jitter_out (jitter_fold jitter_zero l) - Zfloor (jit_exact_fold 0%R l)) <= 1 /\
  0 <= Zfloor (jit_exact_fold 0%R l) <= 4294967294.
Proof. exact jitter_out_accum. Qed.
Print Assumptions C06_reported_jitter_within_one_of_exact.

(* ... and on the stream model itself: [jsteps rate None ops] are the jitter steps of the reception
   history ops (every packet after the first: time since the previous arrival - of either sign -,
   clock rate, signed 32-bit timestamp difference).  The report appended to ANY history whose steps
   stay within magnitude B carries a Jitter field at most 1 away from the floor of the exact
   RFC 3550 A.8 recurrence over the same arrivals *)
Theorem C06_report_jitter_accurate_over_history : forall rate B ops now,
  (0 <= B <= 4294967294)%R -> Forall (acc_ok B) (jsteps rate None ops) ->
  exists ext lsr frac total delay jit,
    r_run _ jitter_kernel jitter_out dlsr_kernel rate (r_init _ jitter_zero) (ops ++ RRep now :: nil) =
    r_run _ jitter_kernel jitter_out dlsr_kernel rate (r_init _ jitter_zero) ops
      ++ (ext, lsr, frac, total, delay, jit) :: nil /\
    Z.abs (jit - Zfloor (jit_exact_fold 0%R (jsteps rate None ops))) <= 1.
Proof. exact reported_jitter_accum. Qed.
Print Assumptions C06_report_jitter_accurate_over_history.

Example C06_jitter_accum_nonvacuous :
  Forall (acc_ok 4000) ((20000000, 90000, 160) :: (-20000000, 90000, 160) :: nil).
Proof. exact jitter_accum_nonvacuous. Qed.
Print Assumptions C06_jitter_accum_nonvacuous.

(* ---------- (3) interceptor glue ---------- *)
(* [tick_out ops now] below = the reports a tick at [now] writes after the operations [ops] on a
   fresh interceptor; all four follow from C06_interceptor_reports *)

(* several SSRCs: the report for s depends only on the operations that concern s and the ticks *)
Theorem C06_streams_independent : forall J j0 jstep jout dk s ops now rep,
  In (s, rep) (snd (ri_step J j0 jstep jout dk (ri_final J j0 jstep jout dk nil ops) (RITick now))) <->
  In (s, rep) (snd (ri_step J j0 jstep jout dk (ri_final J j0 jstep jout dk nil (filter (concerns s) ops)) (RITick now))).
Proof. exact streams_independent. Qed.
Print Assumptions C06_streams_independent.

(* rebind freshness: after BindRemoteStream for s nothing that happened before influences its reports *)
Theorem C06_rebind_fresh : forall J j0 jstep jout dk s r pre post now rep,
  In (s, rep) (snd (ri_step J j0 jstep jout dk (ri_final J j0 jstep jout dk nil (pre ++ RIBind s r :: post)) (RITick now))) <->
  In (s, rep) (snd (ri_step J j0 jstep jout dk (ri_final J j0 jstep jout dk nil (RIBind s r :: post)) (RITick now))).
Proof. exact rebind_fresh. Qed.
Print Assumptions C06_rebind_fresh.

(* Unbind: no report for s until it is bound again *)
Theorem C06_unbound_not_reported : forall J j0 jstep jout dk s pre post now rep,
  Forall (fun op => match op with RIBind s' _ => s' <> s | _ => True end) post ->
  ~ In (s, rep) (snd (ri_step J j0 jstep jout dk (ri_final J j0 jstep jout dk nil (pre ++ RIUnbind s :: post)) (RITick now))).
Proof. exact unbound_not_reported. Qed.
Print Assumptions C06_unbound_not_reported.

(* a sender report for an SSRC that is not bound at that moment changes no report of any stream *)
Theorem C06_sr_for_unbound_ssrc_ignored : forall J j0 jstep jout dk u tnow ntp pre post now s rep,
  fold_left (trackh u) pre None = None ->
  In (s, rep) (snd (ri_step J j0 jstep jout dk (ri_final J j0 jstep jout dk nil (pre ++ RISr u tnow ntp :: post)) (RITick now))) <->
  In (s, rep) (snd (ri_step J j0 jstep jout dk (ri_final J j0 jstep jout dk nil (pre ++ post)) (RITick now))).
Proof. exact sr_for_unbound_ssrc_ignored. Qed.
Print Assumptions C06_sr_for_unbound_ssrc_ignored.
