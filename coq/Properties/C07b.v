(* C07, deepening round - NON-MONOTONE CLOCKS.  Statements only; proofs are in
   Proofs/ReportFloatMore.v (float layer), Proofs/SenderMore.v and Check/C07Check.v.

   senderStream.generateReport computes
       lastRTPTimeRTP + uint32(now.Sub(lastRTPTimeTime).Seconds() * clockRate).
   When the injected clock stepped backwards between the send of the reference
   packet and the report, now.Sub(...) is a NEGATIVE Duration d:
     - Duration.Seconds() truncates toward zero (sec and nsec carry the sign of d),
     - the binary64 sum and product are the negatives of those for |d|,
     - uint32(x) of a negative float64: Go converts through int64 on every 64-bit port
       (truncation toward zero), then keeps the low 32 bits (Base/F64.v f64_to_u32).
   So the report carries  reference timestamp - |d|*rate/1e9  (mod 2^32, within one
   tick + 2^-50 relative): the RTP time is "advanced by the elapsed wall time times the
   clock rate, modulo 2^32" also for a negative elapsed time.  The code satisfies the
   property text for such clocks; no finding.  ([exact_ticks d rate] = (d*rate) quot 1e9,
   rounded toward zero as the conversion does.) *)
From IV Require Import Base.Word Base.F64 Model.Ntp Model.SenderStream Spec.SenderSpec
  Proofs.SenderStreamProofs Proofs.ReportFloatProofs Proofs.ReportFloatMore Proofs.SenderMore Check.C07Check.

(* the kernel on a negative Duration is the negated tick count of |d|, modulo 2^32
   ([elapsed_ticks] = truncated float product before the wrap, C07Float) *)
Theorem C07_rtp_kernel_negative_elapsed : forall d rate,
  0 < d <= MaxDur -> 0 <= rate < 4294967296 ->
  d * rate / 1000000000 < 4611686018427387904 ->
  elapsed_kernel (- d) rate = (- elapsed_ticks d rate) mod 4294967296.
Proof. exact elapsed_kernel_neg. Qed.
Print Assumptions C07_rtp_kernel_negative_elapsed.

(* both signs, every Duration except the saturated MinDur: within the oracle's tolerance
   (1 tick + 2^-50 relative) of the exact signed value, modulo 2^32 *)
Theorem C07_rtp_kernel_signed_meets_oracle_tolerance : forall d rate,
  - MaxDur <= d <= MaxDur -> 0 <= rate < 4294967296 ->
  let ex := exact_ticks d rate in
  Z.abs ex < 4611686018427387904 ->
  Z.abs (s32 (elapsed_kernel d rate - ex)) <= 1 + Z.abs ex / 1125899906842624.
Proof. exact elapsed_kernel_signed_oracle. Qed.
Print Assumptions C07_rtp_kernel_signed_meets_oracle_tolerance.

(* before the wrap: a report |d| before the reference instant subtracts n ticks,
   n within ONE tick of |d|*rate/1e9 *)
Theorem C07_rtp_kernel_negative_within_one_tick : forall d rate,
  0 < d <= MaxDur -> 0 <= rate < 4294967296 ->
  let ex := d * rate / 1000000000 in
  ex < 4294967294 ->
  exists n, elapsed_kernel (- d) rate = (- n) mod 4294967296 /\ 0 <= n /\ Z.abs (n - ex) <= 1.
Proof. exact elapsed_kernel_neg_nowrap. Qed.
Print Assumptions C07_rtp_kernel_negative_within_one_tick.

Example C07_rtp_kernel_negative_nonvacuous :
  elapsed_kernel (-1500000000) 90000 = 4294967296 - 135000 /\
  elapsed_kernel (-1) 4294967295 = 4294967296 - 4 /\
  elapsed_kernel (-999999999) 1 = 0.
Proof. exact elapsed_kernel_neg_nonvacuous. Qed.
Print Assumptions C07_rtp_kernel_negative_nonvacuous.

(* HISTORY LEVEL, executable kernel, any clock: after every send history h whose
   reference is (ts, t) (C07_reference), the report at ANY instant now within
   +-292 years of t carries  ts + (now - t)*rate/1e9  modulo 2^32 (rounded toward
   zero, within 1 tick + 2^-50 relative), whether now is after or before t *)
Theorem C07_rtp_time_any_clock : forall k1 rate ul h now ts t,
  0 <= rate < 4294967296 ->
  sp_ref (sp_accepted ul [] h) = Some (ts, t) ->
  - MaxDur <= now - t <= MaxDur ->
  let ex := exact_ticks (now - t) rate in
  Z.abs ex < 4611686018427387904 ->
  let '(_, rtp, _, _) := s_report elapsed_kernel k1 rate (s_final elapsed_kernel k1 rate ul s_init h) now in
  Z.abs (s32 (rtp - ts - ex)) <= 1 + Z.abs ex / 1125899906842624.
Proof. exact rtp_time_any_clock. Qed.
Print Assumptions C07_rtp_time_any_clock.

(* a clock that steps back by one second, then a later report: RTP times 1000000 - 90000
   and 1000000 + 135000 *)
Example C07_rtp_time_backward_clock_nonvacuous :
  s_run elapsed_kernel ntp_kernel 90000 false s_init
    [SRtp 1700000001000000000 7 1000000 100; SRep 1700000000000000000; SRep 1700000002500000000]
  = [(to_ntp ntp_kernel 1700000000000000000, 1000000 - 90000, 1, 100);
     (to_ntp ntp_kernel 1700000002500000000, 1000000 + 135000, 1, 100)].
Proof. exact rtp_time_backward_clock_nonvacuous. Qed.
Print Assumptions C07_rtp_time_backward_clock_nonvacuous.

(* the extended oracle ([report_code2] = [report_code] + code 6: RTP time of a report
   taken before the reference instant) implies the old one ... *)
Theorem C07_oracle2_implies_oracle : forall rate ul h now r,
  report_code2 rate ul h now r = 0%nat -> report_code rate ul h now r = 0%nat.
Proof. exact report_code2_zero. Qed.
Print Assumptions C07_oracle2_implies_oracle.

(* ... and asks no more than the theorems give: for ANY kernels within the stated
   tolerances for both signs of the elapsed time, the specified report passes it *)
Theorem C07_oracle_not_stronger_any_clock : forall ek k1 rate ul,
  0 <= rate ->
  (forall d, 0 <= d <= MaxDur -> d * rate / 1000000000 < 4611686018427387904 ->
     exists e, Z.abs e <= 1 + (d * rate / 1000000000) / 1125899906842624 /\
               ek d rate = (d * rate / 1000000000 + e) mod 4294967296) ->
  (forall d, 0 < d <= MaxDur -> d * rate / 1000000000 < 4611686018427387904 ->
     exists e, Z.abs e <= 1 + (d * rate / 1000000000) / 1125899906842624 /\
               ek (- d) rate = (- (d * rate / 1000000000) + e) mod 4294967296) ->
  (forall now, 0 <= now < 2085978496 * 1000000000 -> Z.abs (to_ntp k1 now - ntp_exact now) <= 8192) ->
  forall h now, report_code2 rate ul h now (sp_report ek k1 rate ul h now) = 0%nat.
Proof. intros. apply model_passes_oracle2; auto. Qed.
Print Assumptions C07_oracle_not_stronger_any_clock.

(* for the EXECUTABLE RTP-time kernel both kernel hypotheses are theorems: the model's
   report passes codes 1, 2, 4, 6 after every history at every instant, for every uint32
   clock rate; only the NTP kernel keeps its (C20Float) accuracy hypothesis *)
Theorem C07_executable_model_passes_oracle : forall k1 rate ul,
  0 <= rate < 4294967296 ->
  (forall now, 0 <= now < 2085978496 * 1000000000 -> Z.abs (to_ntp k1 now - ntp_exact now) <= 8192) ->
  forall h now, report_code2 rate ul h now (sp_report elapsed_kernel k1 rate ul h now) = 0%nat.
Proof. exact exec_model_passes_oracle2. Qed.
Print Assumptions C07_executable_model_passes_oracle.
