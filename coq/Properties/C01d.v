(* C01, round-4 strengthening - statements only; proofs are in Proofs/ChainR4Proofs.v.

   Two clauses of the property that rounds 1-3 stated too weakly:

   A. "... Close [is] delivered to every member of the chain exactly once with ALL Close errors
      preserved."  C01_close_errors_preserved / C01c_close_errors_preserved_in_any_history say: nil
      iff every member's is, and errors.Is finds exactly the members' sentinels.  That is blind to
      HOW OFTEN an error occurs: when two members fail with the same error value (or one returns a
      sentinel another member's error wraps) a flattenErrs that keeps only the first passes.  Stated
      here over all trees of chains and all histories: the error a Close returns holds the members'
      errors entry by entry - each as often as members returned it, in member order
      (Model/CloseErrs.v: err_leaves; leaves a > 0 a sentinel value, a < 0 a value of its own wrapping
      sentinel -a).  The seeded de-duplicating flattenErrs is refuted; it is invisible to nil-ness and
      to every errors.Is probe (which is all the old check projected); the multiplicity oracle of
      Check/C01Check.v (codes 77 / 78 / 79) decides multiset equality, accepts the model on every
      tree and rejects the seeded variant.

   B. "every RTP packet the application writes reaches the next writer exactly once" - for a chain
      whose BindLocalStream is called more than once (the same SSRC again, with or without an
      Unbind in between; a second stream): the next writer of the binding it was written through,
      and no other binding's.  Stated for every list of transparent wrappers and every number of
      bindings (Model/Rebind.v, writer_at), for the library members concretely, and for the one
      member that also keeps writers in interceptor-level state, the NACK responder's stream table
      (resp_step): over every history of Bind / Unbind / Write / NACK the media packets at binding
      j's next writer are the Writes through binding j's writer, in order.  The seeded "keep the
      registered stream and forward through its writer" variant is refuted by Bind; Bind; Write and
      agrees with the code on every history that never binds an SSRC while it is registered - which
      is all the old harness generated. *)
From IV Require Import Base.Word Model.TwccHdrExt Model.Chain Model.ChainTeardown Model.CloseErrs Model.Rebind.
From IV Require Import Proofs.TwccHdrExtProofs Proofs.ChainProofs Check.C01Check Proofs.ChainInstanceProofs
  Proofs.ChainTeardownProofs Proofs.ChainR4Proofs.
Open Scope Z_scope.

(* ========================================================================= *)
(* A. all Close errors preserved - entry by entry                             *)

(* flattenErrs keeps every entry of every non-nil error, in order *)
Theorem C01d_flatten_keeps_every_error : forall l : list (option err),
  oerr_leaves (flatten_errs l) = flat_map oerr_leaves l.
Proof. exact flatten_errs_leaves. Qed.
Print Assumptions C01d_flatten_keeps_every_error.

(* one Close on any tree of chains *)
Theorem C01d_close_preserves_every_error_once : forall n : node,
  oerr_leaves (snd (deliver TClose n)) = flat_map (fun m => oerr_leaves (m_close_err m)) (leaves n).
Proof. exact close_ret_leaves. Qed.
Print Assumptions C01d_close_preserves_every_error_once.

(* every Close of a teardown history, wherever it stands *)
Theorem C01d_close_in_history_preserves_every_error_once : forall h n k,
  nth_error h k = Some TClose ->
  exists e, nth_error (snd (run_td h n)) k = Some e /\
            oerr_leaves e = flat_map (fun m => oerr_leaves (m_close_err m)) (leaves n).
Proof. exact close_in_history_leaves. Qed.
Print Assumptions C01d_close_in_history_preserves_every_error_once.

(* non-vacuity: Close between the Unbinds; three members fail with the same sentinel (one inside a
   nested chain), one with a value wrapping it: four entries *)
Example C01d_close_duplicates_inhabited :
  let n := NChain [NLeaf (mkM 0 0 0 (Some (ELeaf 3))); NLeaf (mkM 0 0 0 None);
                   NChain [NLeaf (mkM 0 0 0 (Some (ELeaf 3))); NLeaf (mkM 0 0 0 (Some (ELeaf (-3))))];
                   NLeaf (mkM 0 0 0 (Some (ELeaf 3)))] in
  let h := [TUnbindLocal; TClose; TUnbindRemote] in
  nth_error h 1 = Some TClose /\
  exists e, nth_error (snd (run_td h n)) 1 = Some e /\ oerr_leaves e = [3; 3; -3; 3].
Proof. split; [reflexivity|]. eexists. split; reflexivity. Qed.
Print Assumptions C01d_close_duplicates_inhabited.

(* the seeded flattenErrs (skip an error multiError(errs2).Is already finds) loses members' errors *)
Theorem C01d_dedup_flatten_refuted :
  let errs := [Some (ELeaf 3); None; Some (ELeaf 3); Some (ELeaf (-5)); Some (ELeaf 5)] in
  oerr_leaves (flatten_errs errs) = [3; 3; -5; 5] /\
  oerr_leaves (flatten_errs_dedup errs) = [3; -5].
Proof. exact dedup_loses_an_error. Qed.
Print Assumptions C01d_dedup_flatten_refuted.

(* ... and neither nil-ness nor any errors.Is probe can tell it from the code: why it was missed *)
Theorem C01d_dedup_flatten_invisible_to_errors_Is : forall l : list (option err),
  (flatten_errs_dedup l = None <-> flatten_errs l = None) /\
  (forall t, oerr_is_w t (flatten_errs_dedup l) = oerr_is_w t (flatten_errs l)).
Proof. exact dedup_invisible. Qed.
Print Assumptions C01d_dedup_flatten_invisible_to_errors_Is.

(* the oracle (codes 77 / 78 / 79) decides: the result and its message hold every failing
   member's error exactly as often as members returned it, and nothing else *)
Theorem C01d_close_multiplicity_oracle_iff : forall scm oe lines,
  close_mult_code (scm, oe, lines) = 0%nat <->
  (forall x, count_z x (nonzero (cm_leaves (CChain scm))) = count_z x (oerr_leaves oe)) /\
  (forall x, count_z x (nonzero (cm_leaves (CChain scm))) = count_z x lines).
Proof. exact close_mult_code_iff. Qed.
Print Assumptions C01d_close_multiplicity_oracle_iff.

(* no false alarm on the unchanged errors.go: any tree, any (repeated) Close errors; spec side and
   model side (mismatch code 10) *)
Theorem C01d_close_multiplicity_oracle_accepts_model : forall scm : list cm,
  close_mult_code (scm, cm_err (CChain scm), oerr_leaves (cm_err (CChain scm))) = 0%nat /\
  close_tree_ok (scm, cm_err (CChain scm), oerr_leaves (cm_err (CChain scm))) = true.
Proof. intros scm. split; [apply close_mult_accepts_model|apply close_tree_ok_on_model]. Qed.
Print Assumptions C01d_close_multiplicity_oracle_accepts_model.

Theorem C01d_close_multiplicity_oracle_rejects_dedup :
  let scm := [CLeaf 3; CLeaf 0; CChain [CLeaf 3]; CLeaf (-5); CLeaf 5] in
  let e := flatten_errs_dedup [Some (ELeaf 3); None; flatten_errs_dedup [Some (ELeaf 3)]; Some (ELeaf (-5)); Some (ELeaf 5)] in
  close_mult_code (scm, e, oerr_leaves e) = 77%nat /\
  close_tree_ok (scm, e, oerr_leaves e) = false.
Proof. exact close_mult_rejects_dedup. Qed.
Print Assumptions C01d_close_multiplicity_oracle_rejects_dedup.

(* ========================================================================= *)
(* B. a chain bound more than once                                            *)

(* every list of transparent wrappers, any number of bindings, any next writer: a Write through
   binding k performs on transport k exactly the calls p' :: inj and changes no other transport *)
Theorem C01d_write_reaches_only_its_binding :
  forall (P : Type) (upto : P -> P -> Prop),
  (forall p, upto p p) -> (forall a b c, upto a b -> upto b c -> upto a c) ->
  forall (Pok : P -> Prop) (S0 : Type) (d : S0) (l : list (wrapper P)),
  Forall (transparent P upto Pok) l ->
  forall (tw : writer P S0) k ts sts p, Pok p -> (k < length ts)%nat ->
  exists p' inj sts' extra, upto p p' /\ Pok p' /\ Forall Pok inj /\
    chain_bind l (writer_at d k tw) p (sts, ts) =
      ((sts', set_nth k (fst (run_list tw (p' :: inj) (nth k ts d))) ts),
       (fst (hdres (snd (run_list tw (p' :: inj) (nth k ts d)))),
        snd (hdres (snd (run_list tw (p' :: inj) (nth k ts d)))) ++ extra)) /\
    incl extra (flat_map snd (tl (snd (run_list tw (p' :: inj) (nth k ts d))))).
Proof. exact write_reaches_only_its_binding. Qed.
Print Assumptions C01d_write_reaches_only_its_binding.

Theorem C01d_write_leaves_other_bindings_alone :
  forall (P : Type) (upto : P -> P -> Prop),
  (forall p, upto p p) -> (forall a b c, upto a b -> upto b c -> upto a c) ->
  forall (Pok : P -> Prop) (S0 : Type) (d : S0) (l : list (wrapper P)),
  Forall (transparent P upto Pok) l ->
  forall (tw : writer P S0) k ts sts p j, Pok p -> (k < length ts)%nat -> j <> k ->
  nth j (snd (fst (chain_bind l (writer_at d k tw) p (sts, ts)))) d = nth j ts d.
Proof. exact write_leaves_other_bindings_alone. Qed.
Print Assumptions C01d_write_leaves_other_bindings_alone.

(* the library members (as modelled), any list of them, a binding for a stream with any SSRC *)
Theorem C01d_library_write_leaves_other_bindings_alone :
  forall (c : cfg) (ms : list member_desc) (ssrc : Z),
  c_sid c = 0 \/ 1 <= c_sid c <= 14 ->
  let ck := with_ssrc c ssrc in
  forall S0 (d : S0) (tw : writer pkt S0) k ts sts p j, Pok_c ck p -> (k < length ts)%nat -> j <> k ->
  nth j (snd (fst (chain_bind (map (wr_of ck) ms) (writer_at d k tw) p (sts, ts)))) d = nth j ts d.
Proof. exact library_write_reaches_only_its_binding. Qed.
Print Assumptions C01d_library_write_leaves_other_bindings_alone.

(* non-vacuity: two bindings of [responder; recording member], a Write through binding 1 *)
Example C01d_two_bindings_inhabited :
  let c : cfg := (5000, 0, true, false, 0, 0) in
  let p : pkt := (mkH [2; 0; 0; 96; 7; 9; 5000; 0] false 0 [], (256, 10)) in
  let ms : list member_desc := [(2, [0; 0; 0]); (15, [])] in
  snd (fst (chain_bind (map (wr_of c) ms) (writer_at ([], []) 1 script_writer) p
                       (init_ws ms, [([], []); ([], [])]))) = [([], []); ([], [p])].
Proof. reflexivity. Qed.
Print Assumptions C01d_two_bindings_inhabited.

(* the model run of the differential check with one binding is the run of rounds 1-3 *)
Theorem C01d_single_binding_run_is_the_old_run : forall cf ms tbl ops sts,
  run_wops_b cf ms tbl [] [sts] ops [] =
  (fst (run_wops (map (wr_of cf) ms) tbl sts ops), [snd (run_wops (map (wr_of cf) ms) tbl sts ops)]).
Proof. exact run_wops_b_single. Qed.
Print Assumptions C01d_single_binding_run_is_the_old_run.

(* read side after an UnbindLocalStream stopped the shared stats recorder *)
Theorem C01d_rtransparent_stats_stopped : forall D H (parse : D -> option H) tcc_ext,
  rtransparent D H parse tcc_ext r_stats_stopped.
Proof. exact rtransparent_stats_stopped. Qed.
Print Assumptions C01d_rtransparent_stats_stopped.

Theorem C01d_library_read_chain_transparent_after_unbind : forall c unb (ms : list member_desc),
  rtransparentL (option hdr) hdr rparse (tcc_ext c) (fun sts => length sts = length ms)
    (fun S inner => rchain_bind (map (rd_of_u unb c) ms) inner).
Proof. exact library_read_chain_transparent_after_unbind. Qed.
Print Assumptions C01d_library_read_chain_transparent_after_unbind.

(* ---- the NACK responder's stream table ---- *)
Theorem C01d_responder_media_leaves_through_own_binding : forall h i st j,
  media (r_out (run_b resp_step h i st) j) = media (r_out st j) ++ writes_via j h i.
Proof. exact faithful_media. Qed.
Print Assumptions C01d_responder_media_leaves_through_own_binding.

Theorem C01d_keep_registered_stream_refuted :
  let h := [BBind 5; BWrite 0 5; BBind 5; BWrite 1 5] in
  (media (r_out (run_b resp_step h 0 r0) 0) = [1%nat] /\ media (r_out (run_b resp_step h 0 r0) 1) = [3%nat]) /\
  (media (r_out (run_b resp_step_keep h 0 r0) 0) = [1%nat; 3%nat] /\ media (r_out (run_b resp_step_keep h 0 r0) 1) = []).
Proof. exact keep_loses_media. Qed.
Print Assumptions C01d_keep_registered_stream_refuted.

Theorem C01d_keep_registered_stream_invisible_without_rebind : forall h i st,
  no_rebind h (map fst (r_table st)) ->
  (forall k s j, nth_error (r_binds st) k = Some (s, j) -> j = k) ->
  run_b resp_step_keep h i st = run_b resp_step h i st.
Proof. exact keep_agrees_without_rebind. Qed.
Print Assumptions C01d_keep_registered_stream_invisible_without_rebind.

(* non-vacuity of the hypothesis: Unbind before the re-Bind, a second stream, from the empty table *)
Example C01d_no_rebind_inhabited :
  no_rebind [BBind 5; BWrite 0 5; BUnbind 5; BBind 5; BBind 6; BWrite 1 5; BNack 5; BWrite 2 6] (map fst (r_table r0)) /\
  (forall k s j, nth_error (r_binds r0) k = Some (s, j) -> j = k).
Proof.
  split.
  - cbn. repeat split; intros H; repeat (destruct H as [H|H]; try discriminate); exact H.
  - intros [|k] s j H; discriminate.
Qed.
Print Assumptions C01d_no_rebind_inhabited.
