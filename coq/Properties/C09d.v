(* C09, round-4 strengthening - statements only.  Proofs: Proofs/C09MultiProofs.v.

   "Every resulting acknowledgement names a packet that was really sent": sent by the sender
   whose feedback is being read.  One process holds SEVERAL senders - every Interceptor an
   rtpfb InterceptorFactory builds (one per PeerConnection of a registry), every cc
   FeedbackAdapter - and their operations interleave arbitrarily.

   Vocabulary (Model/MultiInst.v).  A program is a list of (instance, operation);
   [mi_run step init [] ops] runs it on a table of instances in which every instance has its
   own state and a fresh one starts in [init] (rtpfb: rstep / h_init, i.e. NewInterceptor's
   newHistory(); cc: step / the empty history); one output per operation.
   [mi_proj i ops] = the operations performed on instance i, [mi_proj_outs i ops outs] = the
   outputs of those operations.  [mi_final] = the table after the program. *)
From IV Require Import Base.Word Model.FbAdapter Model.RtpfbConvert Model.RtpfbHistory Model.MultiInst
  Spec.FbSpec Spec.RtpfbSpec.
From IV Require Import Proofs.C09MultiProofs.

(* pkg/rtpfb: in every interleaving the reports read on interceptor i are those of an
   interceptor that performed i's writes and reads and nothing else ... *)
Theorem C09_multi_rtpfb_independent : forall reft32 i (ops : list (Z * rop)),
  mi_proj_outs i ops (mi_run (rstep reft32) h_init [] ops) = rrun reft32 h_init (mi_proj i ops).
Proof. exact multi_rtpfb_independent. Qed.
Print Assumptions C09_multi_rtpfb_independent.

(* ... hence they are the specification of C09b (each of ITS packets exactly once up to the
   highest acknowledged, in ITS send order, counted by ITS send counter, with the status of the
   latest feedback read on IT) applied to i's own calls: no packet, counter or status of any
   other interceptor - of the same factory or not - is ever visible. *)
Theorem C09_multi_rtpfb_is_spec : forall reft32 i (ops : list (Z * rop)),
  Z.of_nat (length ops) < W64 ->
  mi_proj_outs i ops (mi_run (rstep reft32) h_init [] ops) = rspec_run reft32 [] (mi_proj i ops).
Proof. exact multi_rtpfb_is_spec. Qed.
Print Assumptions C09_multi_rtpfb_is_spec.

(* non-vacuity / the shape of the round-4 seed: interceptors 0 and 1 both send TWCC number 1
   on SSRC 7; feedback "number 1 arrived" read on interceptor 0 reports interceptor 0's
   packet (counter 0, size 120), and an unrelated read on interceptor 1 reports nothing *)
Example C09_multi_rtpfb_example :
  mi_run (rstep (fun _ _ => 0)) h_init []
    [(0, RSend true (Some 1) 7 100 120 5); (1, RSend true (Some 1) 7 100 520 6);
     (0, RRead 9 [FTw 1 1 1 [SV [1; 0; 0; 0; 0; 0; 0]] [1000]]); (1, RRead 10 [FOther])]
  = [[]; []; [mkPrep 7 0 100 true 1 120 5 true 65000000 0]; []].
Proof. vm_compute. reflexivity. Qed.
Print Assumptions C09_multi_rtpfb_example.

(* internal/cc: the same for FeedbackAdapters ... *)
Theorem C09_multi_cc_independent : forall reftime i (ops : list (Z * op)),
  mi_proj_outs i ops (mi_run (step reftime) [] [] ops) = run reftime [] (mi_proj i ops).
Proof. exact multi_cc_independent. Qed.
Print Assumptions C09_multi_cc_independent.

(* ... and the history adapter i decodes against is, after any interleaving, the 250 most
   recently sent distinct packets among those sent THROUGH ADAPTER i (so all theorems of
   C09 / C09b about one adapter - position semantics, names-sent, round trips - hold per
   adapter with "sent" meaning "sent through it"). *)
Theorem C09_multi_cc_history : forall reftime i (ops : list (Z * op)),
  mi_get [] (mi_final (step reftime) [] [] ops) i = recent 250 (send_log (mi_proj i ops) []).
Proof. exact multi_cc_history. Qed.
Print Assumptions C09_multi_cc_history.

(* The run-time oracle of the multi-instance rtpfb cases (Check/C09MultiCheck.v
   mfb_spec_failures = mfb_case_codes per case) reports nothing EXACTLY when one output was
   recorded per read and, for every interceptor of the case, its feedback is well formed and
   the reports it returned equal the specification applied to its own operations. *)
From IV Require Check.C09MultiCheck Proofs.C09OracleRtpfb.
Theorem C09_mfb_oracle_iff : forall c : IV.Check.C09MultiCheck.mfb_case,
  IV.Check.C09MultiCheck.mfb_case_codes c = [] <->
  IV.Check.C09MultiCheck.count_outs IV.Check.C09MultiCheck.is_read_cop (fst c) = length (snd c) /\
  forall i, In i (IV.Check.C09MultiCheck.insts (fst c)) ->
    let ops := flat_map IV.Check.C09Check.rexpand (mi_proj i (fst c)) in
    let outs := map (fun l => IV.Check.C09Check.unflat_rep l (length l))
                    (IV.Check.C09MultiCheck.proj_some IV.Check.C09MultiCheck.is_read_cop i (fst c) (snd c)) in
    Forall IV.Proofs.C09OracleRtpfb.wf_rop ops /\
    outs = IV.Check.C09Check.read_outs ops (rspec_run IV.Check.C09Check.reft32 [] ops).
Proof. exact mfb_oracle_iff. Qed.
Print Assumptions C09_mfb_oracle_iff.

(* the per-instance operations the oracle looks at are the projection of the program the
   model runs (the compact case syntax commutes with projection) *)
Theorem C09_multi_case_projection : forall i (cops : list (Z * IV.Check.C09Check.rcop)),
  mi_proj i (IV.Check.C09MultiCheck.tag_expand IV.Check.C09Check.rexpand cops)
  = flat_map IV.Check.C09Check.rexpand (mi_proj i cops).
Proof. exact (tag_expand_proj IV.Check.C09Check.rexpand). Qed.
Print Assumptions C09_multi_case_projection.
