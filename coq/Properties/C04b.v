(* C04 - NACK responder retransmits exactly what was sent: deepening round.
   Statements only; proofs are in Proofs/ResponderMore.v and Proofs/C04OracleMore.v.
   The models follow the code after "fix: nack responder Close waits for
   retransmissions in progress and stops serving streams" (flag [closed]); the
   header model now covers every field of rtp.Header but Version (CSRC list,
   extension flag, profile, extensions with their payload bytes). *)
From IV Require Import Base.Word Model.RtpBuffer Model.PacketFactory Spec.C04Spec Model.Responder
  Check.C04Check Check.C04bCheck
  Proofs.RtpBufferProofs Proofs.PacketFactoryProofs Proofs.ResponderProofs Proofs.ResponderMore Proofs.C04OracleMore.
From Coq Require Import Permutation.

(* ---- (e) end to end through the public API (sequential semantics).  For every
   API history and every NACK: every packet written in answer goes to the
   writer of the stream bound to the NACK's media SSRC, and the history
   contains a Write call - through the writer that BindLocalStream call
   returned, with the stream's SSRC and a REQUESTED sequence number - of which
   the written packet is the retransmission form (Spec/C04Spec.v is_resend_of:
   header and payload as written, or RTX SSRC/PT + OSN prefix + payload without
   padding).  Together with C04_nack_answer/C04_one_per_request (exactly the
   designated packet per request, nothing for numbers not sent / outside the
   window / unbound streams) this is the property's text for one NACK. ---- *)
Theorem C04b_nack_resends_what_was_written : forall size copy start ops ssrc pairs w h' pay',
  valid_size size = true -> Forall op_ok ops -> pairs_ok pairs ->
  let s := fst (rfold (rinit size copy start) [] ops) in
  In (w, h', pay') (snd (snd (rstep s (ONack ssrc pairs)))) ->
  exists hid hd h pay,
    amap_find ssrc (rs_streams s) = Some hid /\ nth_error (rs_handles s) hid = Some hd /\ w = hd_wid hd /\
    In (OWrite hid h pay) ops /\ h_ssrc h = si_ssrc (hd_info hd) /\ In (h_seq h) (nack_seqs pairs) /\
    is_resend_of (copy && is_rtx (si_rtxssrc (hd_info hd)) (si_rtxpt (hd_info hd)))
                 (si_rtxssrc (hd_info hd)) (si_rtxpt (hd_info hd)) h pay h' pay'.
Proof. exact nack_resends_what_was_written. Qed.
Print Assumptions C04b_nack_resends_what_was_written.

(* non-vacuity: the history of C04_nack_example with CSRCs and a one-byte extension; the retransmission of 101
   is in the answer, so the theorem's hypothesis holds for it *)
Example C04b_nack_example :
  let x := (true, 48862, [(3, [1; 2; 3])]) in
  let i := mkSI 1000 2000 97 true in
  let w s := OWrite 0%nat (mkH false 0 false 96 s 5 1000 [11; 12] x) [s] in
  In (0, mkH false 0 false 97 501 5 2000 [11; 12] x, [0; 101; 101])
     (snd (snd (rstep (fst (rfold (rinit 8 true 500) [] [OBind i 0; w 100; w 101; w 102; w 93])) (ONack 1000 [(101, 5)])))).
Proof. vm_compute. left. reflexivity. Qed.
Print Assumptions C04b_nack_example.

(* every retransmission form keeps marker, timestamp, the CSRC list and the whole extension part of the header as
   written (C04_rtx_form / C04_history_entries are stated with is_resend_of, which now includes them) *)
Theorem C04b_resend_keeps_csrc_and_extensions : forall rtx rs rpt h pay h' pay',
  is_resend_of rtx rs rpt h pay h' pay' ->
  h_marker h' = h_marker h /\ h_ts h' = h_ts h /\ h_csrc h' = h_csrc h /\ h_x h' = h_x h.
Proof. exact resend_keeps_csrc_and_extensions. Qed.
Print Assumptions C04b_resend_keeps_csrc_and_extensions.

(* ---- (f) compound RTCP packets with several NACKs (one resend goroutine per
   NACK in the code).  A NACK does not change the state; served one after the
   other each NACK gets the answer it gets alone; hence in whatever order the
   goroutines are served the outputs are the same up to that order.  (The
   interleaving of the individual writes of different goroutines is not
   modelled here - see the LTS theorems of C04.v for content under any
   interleaving; the correspondence set c04multi compares per goroutine.) ---- *)
Theorem C04b_nack_keeps_state : forall s ssrc pairs, fst (rstep s (ONack ssrc pairs)) = s.
Proof. exact nack_keeps_state. Qed.
Print Assumptions C04b_nack_keeps_state.

Theorem C04b_compound_sequential : forall ns s, rrun s (map nack_op ns) = map (nack_out s) ns.
Proof. exact compound_sequential. Qed.
Print Assumptions C04b_compound_sequential.

Theorem C04b_compound_order_irrelevant : forall s ns ns', Permutation ns ns' ->
  Permutation (rrun s (map nack_op ns)) (rrun s (map nack_op ns')).
Proof. exact compound_order_irrelevant. Qed.
Print Assumptions C04b_compound_order_irrelevant.

(* ---- (g) Close is final: whatever the API is used for after a Close, no NACK
   is answered, n.streams stays empty, BindLocalStream registers nothing and
   returns a writer that is transparent. ---- *)
Theorem C04b_closed_answers_nothing : forall size copy start ops1 ops2 ssrc pairs,
  let s := run_state (rinit size copy start) (ops1 ++ OClose :: ops2) in
  rs_closed s = true /\ rstep s (ONack ssrc pairs) = (s, (0, [])).
Proof. exact closed_answers_nothing. Qed.
Print Assumptions C04b_closed_answers_nothing.

Theorem C04b_closed_no_streams : forall size copy start ops1 ops2,
  valid_size size = true -> Forall op_ok (ops1 ++ OClose :: ops2) ->
  rs_streams (run_state (rinit size copy start) (ops1 ++ OClose :: ops2)) = [].
Proof. exact closed_no_streams. Qed.
Print Assumptions C04b_closed_no_streams.

Theorem C04b_bind_after_close_passes_through : forall s i wid, rs_closed s = true ->
  let s' := fst (rstep s (OBind i wid)) in
  rs_streams s' = rs_streams s /\
  exists hd, nth_error (rs_handles s') (length (rs_handles s)) = Some hd /\
             hd_pass hd = true /\ hd_wid hd = wid /\ hd_info hd = i.
Proof. exact bind_after_close. Qed.
Print Assumptions C04b_bind_after_close_passes_through.

Theorem C04b_pass_handle_transparent : forall s hid hd h pay,
  nth_error (rs_handles s) hid = Some hd -> hd_pass hd = true ->
  rstep s (OWrite hid h pay) = (s, (0, [(hd_wid hd, h, pay)])).
Proof. exact pass_handle_transparent. Qed.
Print Assumptions C04b_pass_handle_transparent.

(* non-vacuity: bind, write 7, Close, bind the same stream again (handle 1), write 8 through the new handle
   (forwarded untouched to writer 5), NACK for 7 and 8: nothing *)
Example C04b_close_example :
  let i := mkSI 1000 0 0 true in
  let hh s := mkH false 0 false 96 s 0 1000 [] no_x in
  rrun (rinit 8 true 0) [OBind i 4; OWrite 0%nat (hh 7) [7]; OClose; OBind i 5; OWrite 1%nat (hh 8) [8]; ONack 1000 [(7, 1)]] =
  [(0, []); (0, [(4, hh 7, [7])]); (0, []); (0, []); (0, [(5, hh 8, [8])]); (0, [])].
Proof. vm_compute. reflexivity. Qed.
Print Assumptions C04b_close_example.

(* ---- (h) meaning of the c04multi checkers ---- *)
(* [assign] finds a one-to-one assignment *)
Theorem C04b_assign_sound : forall (A B : Type) (rel : A -> B -> bool) xs ys, assign rel xs ys = true ->
  exists ys', Permutation ys ys' /\ Forall2 (fun x y => rel x y = true) xs ys'.
Proof. exact @assign_sound. Qed.
Print Assumptions C04b_assign_sound.

(* correspondence of a compound: the groups written by the resend goroutines are, up to order, the model's
   non-empty answers to the NACKs *)
Theorem C04b_compound_model_check_is_permutation : forall s ns gs,
  assign (list_eqb emit_eqb) (model_answers s ns) gs = true -> Permutation gs (model_answers s ns).
Proof. exact compound_model_ok_perm. Qed.
Print Assumptions C04b_compound_model_check_is_permutation.

(* oracle verdict 0 on a compound: the groups can be assigned one-to-one to the NACKs that require a
   retransmission such that each is accepted by the per-NACK oracle *)
Theorem C04b_compound_oracle_sound : forall size copy s ns gs, compound_code size copy s ns gs = 0%nat ->
  exists gs', Permutation gs gs' /\
    Forall2 (fun rq g => match_emits copy (fst rq) (snd rq) g = 0%nat) (requirements size s ns) gs'.
Proof. exact compound_code_ok. Qed.
Print Assumptions C04b_compound_oracle_sound.
