(* C20 - Sequence-number unwrapping and NTP conversion are exact and monotone.
   Statements only; proofs are in Proofs/. *)
From IV Require Import Base.Word Model.Unwrapper Model.Ntp Proofs.UnwrapperProofs Proofs.NtpProofs Check.C20Check
  Generated.GoCoresC20 Proofs.GeneratedEqC20.

(* every output is non-negative, for every input sequence *)
Theorem C20_unwrap_nonneg : forall l, all_u16 l -> Forall (fun r => 0 <= r) (unwrap_all None l).
Proof. intros l H. exact (unwrap_all_nonneg None l I H). Qed.
Print Assumptions C20_unwrap_nonneg.

(* every output is congruent to its input modulo 2^16 *)
Theorem C20_unwrap_congr : forall l, all_u16 l ->
  Forall2 (fun i r => (r - i) mod 65536 = 0) l (unwrap_all None l).
Proof. intros l H. exact (unwrap_all_congr None l H). Qed.
Print Assumptions C20_unwrap_congr.

(* every output is the representative nearest to the previous output (ties and
   the floor at zero as described in nearest_spec) *)
Theorem C20_unwrap_nearest : forall l, all_u16 l -> nearest_chain None l (unwrap_all None l).
Proof. intros l H. exact (unwrap_all_nearest None l I H). Qed.
Print Assumptions C20_unwrap_nearest.

(* within 2^15 of the previous result, whenever that is satisfiable at all
   (previous result >= 2^15; below that the floor at zero applies) *)
Theorem C20_unwrap_within : forall last i, 32768 <= last -> 0 <= i < 65536 ->
  Z.abs (unwrap_next last i - last) <= 32768.
Proof. exact unwrap_next_within. Qed.
Print Assumptions C20_unwrap_within.

(* the literal "within 2^15" is unsatisfiable at the floor: no implementation can meet it *)
Theorem C20_unwrap_literal_unsat :
  ~ exists r, 0 <= r /\ (r - 65535) mod 65536 = 0 /\ Z.abs (r - 5) <= 32768.
Proof. exact literal_unsat. Qed.
Print Assumptions C20_unwrap_literal_unsat.

(* any stream whose consecutive true values differ by less than 2^15 is reconstructed exactly *)
Theorem C20_unwrap_exact : forall v0 vs, 0 <= v0 < 65536 -> small_steps v0 vs ->
  unwrap_all None (map (fun v => v mod 65536) (v0 :: vs)) = v0 :: vs.
Proof. exact unwrap_all_exact. Qed.
Print Assumptions C20_unwrap_exact.

(* the boolean oracle applied to the implementation's outputs is the Prop-level spec *)
Theorem C20_oracle_sound : forall ins outs,
  nearest_chainb None ins outs = true <-> nearest_chain None ins outs.
Proof. exact (nearest_chainb_iff None). Qed.
Print Assumptions C20_oracle_sound.

(* NTP bit layer, for every float kernel *)
Theorem C20_ntp32_is_middle_bits : forall k1 ns,
  to_ntp32 k1 ns = (to_ntp k1 ns mod 281474976710656) / 65536.
Proof. exact ntp32_mid. Qed.
Print Assumptions C20_ntp32_is_middle_bits.

Theorem C20_ntp32_roundtrip_bits : forall k1 t ref,
  to_ntp k1 t / 281474976710656 = to_ntp k1 ref / 281474976710656 ->
  combine32 (to_ntp32 k1 t) (to_ntp k1 ref) = to_ntp k1 t - to_ntp k1 t mod 65536.
Proof. exact ntp32_roundtrip_bits. Qed.
Print Assumptions C20_ntp32_roundtrip_bits.

(* the unwrapper model IS what the translator tools/go2coq derives from
   internal/sequencenumber/unwrapper.go on this run (state = (init, lastUnwrapped));
   the uint16 parameters carry their range *)
Theorem C20_unwrapper_model_is_source : forall init last i, 0 <= i < 65536 ->
  g_sequencenumber_Unwrapper_Unwrap init last i =
    (snd (unwrap (st_of init last) i), true, snd (unwrap (st_of init last) i)) /\
  fst (unwrap (st_of init last) i) = Some (snd (unwrap (st_of init last) i)).
Proof. exact gen_Unwrap_eq. Qed.
Print Assumptions C20_unwrapper_model_is_source.

Theorem C20_isNewer_model_is_source : forall v p, 0 <= v < 65536 -> 0 <= p < 65536 ->
  g_sequencenumber_isNewer v p = is_newer v p.
Proof. exact gen_isNewer_eq. Qed.
Print Assumptions C20_isNewer_model_is_source.
