(* C13 - Caller-owned buffers are not retained or modified after a call returns.
   Statements only; proofs are in Proofs/AliasProofs.v and Check/C13Check.v.

   PARTIAL: the theorems are about the copy-vs-alias model (Model/Alias.v).  That
   each library component stores copies ([Val]) - the [<component>_mode] lemmas -
   is a modelling decision read off the Go source and validated only by the
   two-run differential on the real code (fresh vs reused-and-scribbled
   buffers, harness/cmd/c13).  Go's memory model, the garbage collector and
   sync.Pool are not modelled; data races with a scribbling caller are looked for
   by the race detector in the thorough tier, not proved absent. *)
From IV Require Import Base.Word Model.Alias Proofs.AliasProofs Check.C13Check.

(* For every content type, configuration, history and scribble schedule: if
   every component the history calls keeps copies, everything emitted
   (retransmissions, FEC inputs, paced packets, dump lines, reports) equals
   what the scribble-free run of the same history emits. *)
Theorem C13_scribble_independent : forall (A : Type) (cfg : config) (ops : list (op A)),
  (forall c bufs, In (Call c bufs) ops -> forall p, cfg c p = MVal) ->
  outputs A cfg ops = outputs A cfg (strip A ops).
Proof. exact scribble_independent. Qed.
Print Assumptions C13_scribble_independent.

(* Stronger: the emitted outputs are those of the copy semantics (each component
   emits the contents it was passed at call time; no heap in that semantics). *)
Theorem C13_val_refines_copy_semantics : forall (A : Type) (cfg : config) (ops : list (op A)),
  (forall c bufs, In (Call c bufs) ops -> forall p, cfg c p = MVal) ->
  outputs A cfg ops = spec_outputs A (abstract A ops).
Proof. exact val_refines_copy_semantics. Qed.
Print Assumptions C13_val_refines_copy_semantics.

(* Fresh allocation per packet vs one reused buffer, any scribbles in either
   run: two histories that pass the same contents in the same order emit the same. *)
Theorem C13_location_independent : forall (A : Type) (cfg : config) (ops1 ops2 : list (op A)),
  (forall c bufs, In (Call c bufs) ops1 -> forall p, cfg c p = MVal) ->
  (forall c bufs, In (Call c bufs) ops2 -> forall p, cfg c p = MVal) ->
  abstract A ops1 = abstract A ops2 ->
  outputs A cfg ops1 = outputs A cfg ops2.
Proof. exact location_independent. Qed.
Print Assumptions C13_location_independent.

(* The library as modelled: every history that does not use the two documented
   exceptions (nack.DisableCopy, direct JitterBuffer.Push) is scribble-independent.
   PARTIAL: rests on the per-component mode lemmas below. *)
Theorem C13_library_scribble_independent_partial : forall (A : Type) (ops : list (op A)),
  (forall c bufs, In (Call c bufs) ops -> exception c = false) ->
  outputs A lib_mode ops = outputs A lib_mode (strip A ops).
Proof. intros A ops. exact (lib_scribble_independent ops). Qed.
Print Assumptions C13_library_scribble_independent_partial.

(* No step of any component writes a caller location: a location changes only
   by the caller's own Scribble or by the caller filling the buffers it passes. *)
Theorem C13_never_writes_caller : forall (A : Type) (cfg : config) (s : state A) (o : op A) (l : loc),
  hp (fst (step A cfg s o)) l <> hp s l ->
  (exists a, o = Scribble l a) \/ (exists c bufs, o = Call c bufs /\ In l (map fst bufs)).
Proof. exact never_writes_caller. Qed.
Print Assumptions C13_never_writes_caller.

(* Over whole histories: the version of a location counts exactly the caller's writes. *)
Theorem C13_versions_count_caller_writes : forall (A : Type) (cfg : config) (ops : list (op A)) (l : loc),
  hver A (hp (fst (run A cfg (init A) ops))) l = caller_writes A l ops.
Proof. intros A cfg ops l. rewrite versions_count_caller_writes. reflexivity. Qed.
Print Assumptions C13_versions_count_caller_writes.

(* Modes of the library components as modelled (after the fixes for F17, F29). *)
Theorem C13_nack_copy_mode : forall p, lib_mode NackCopy p = MVal. Proof. exact nack_copy_mode. Qed.
Print Assumptions C13_nack_copy_mode.
Theorem C13_nack_rtx_mode : forall p, lib_mode NackRtx p = MVal. Proof. exact nack_rtx_mode. Qed.
Print Assumptions C13_nack_rtx_mode.
Theorem C13_nack_nocopy_mode : forall p, lib_mode NackNoCopy p = MRef. Proof. exact nack_nocopy_mode. Qed.
Print Assumptions C13_nack_nocopy_mode.
Theorem C13_flexfec_mode : forall p, lib_mode FlexFec p = MVal. Proof. exact flexfec_mode. Qed.
Print Assumptions C13_flexfec_mode.
Theorem C13_leaky_bucket_mode : forall p, lib_mode LeakyBucket p = MVal. Proof. exact leaky_bucket_mode. Qed.
Print Assumptions C13_leaky_bucket_mode.
Theorem C13_pacing_mode : forall p, lib_mode Pacing p = MVal. Proof. exact pacing_mode. Qed.
Print Assumptions C13_pacing_mode.
Theorem C13_dump_sender_mode : forall p, lib_mode DumpSender p = MVal. Proof. exact dump_sender_mode. Qed.
Print Assumptions C13_dump_sender_mode.
Theorem C13_dump_receiver_mode : forall p, lib_mode DumpReceiver p = MVal. Proof. exact dump_receiver_mode. Qed.
Print Assumptions C13_dump_receiver_mode.
Theorem C13_dump_receiver_rtcp_mode : forall p, lib_mode DumpReceiverRtcp p = MVal. Proof. exact dump_receiver_rtcp_mode. Qed.
Print Assumptions C13_dump_receiver_rtcp_mode.
Theorem C13_stats_out_mode : forall p, lib_mode StatsOut p = MVal. Proof. exact stats_out_mode. Qed.
Print Assumptions C13_stats_out_mode.
Theorem C13_stats_in_mode : forall p, lib_mode StatsIn p = MVal. Proof. exact stats_in_mode. Qed.
Print Assumptions C13_stats_in_mode.
Theorem C13_jb_interceptor_mode : forall p, lib_mode JBInterceptor p = MVal. Proof. exact jb_interceptor_mode. Qed.
Print Assumptions C13_jb_interceptor_mode.
Theorem C13_jb_push_mode : forall p, lib_mode JBPush p = MRef. Proof. exact jb_push_mode. Qed.
Print Assumptions C13_jb_push_mode.
Theorem C13_twcc_sender_mode : forall p, lib_mode TwccSender p = MVal. Proof. exact twcc_sender_mode. Qed.
Print Assumptions C13_twcc_sender_mode.
Theorem C13_rtpfb_mode : forall p, lib_mode Rtpfb p = MVal. Proof. exact rtpfb_mode. Qed.
Print Assumptions C13_rtpfb_mode.

(* Val mode is necessary: a component that keeps an alias of ANY first part
   shows the scribble (so the hypothesis of C13_scribble_independent is not idle). *)
Theorem C13_ref_mode_depends : forall (A : Type) (cfg : config) (c : comp) (a b : A),
  a <> b -> cfg c 0%nat = MRef ->
  outputs A cfg (dep_history A c a b) <> outputs A cfg (strip A (dep_history A c a b)).
Proof. exact ref_mode_depends. Qed.
Print Assumptions C13_ref_mode_depends.

(* The documented exceptions do exhibit the dependence in the model:
   pass content 1, scribble 2, emit -> 2 is emitted. *)
Theorem C13_scribble_independent_disable_copy_refuted :
  outputs Z lib_mode (dep_history Z NackNoCopy 1 2) <> outputs Z lib_mode (strip Z (dep_history Z NackNoCopy 1 2)).
Proof. exact nocopy_depends. Qed.
Print Assumptions C13_scribble_independent_disable_copy_refuted.

Theorem C13_scribble_independent_direct_push_refuted :
  outputs Z lib_mode (dep_history Z JBPush 1 2) <> outputs Z lib_mode (strip Z (dep_history Z JBPush 1 2)).
Proof. exact jbpush_depends. Qed.
Print Assumptions C13_scribble_independent_direct_push_refuted.

(* Non-vacuity of C13_scribble_independent: a FlexFEC-style history (two packets
   into a reused buffer, each scribbled after the call, then the batch is
   emitted) satisfies the hypothesis and emits the original contents. *)
Example C13_scribble_independent_nonvacuous :
  let ops := [Call FlexFec [(1, 10); (2, 20)]; Scribble 1 99; Scribble 2 98;
              Call FlexFec [(1, 11); (2, 21)]; EmitAll FlexFec; Scribble 1 97] in
  (forall c bufs, In (Call c bufs) ops -> forall p, lib_mode c p = MVal) /\
  outputs Z lib_mode ops = [[[Some 10; Some 20]; [Some 11; Some 21]]] /\
  strip Z ops <> ops.
Proof.
  split; [|split].
  - intros c bufs [H|[H|[H|[H|[H|[H|[]]]]]]] p; inversion H; reflexivity.
  - reflexivity.
  - discriminate.
Qed.
Print Assumptions C13_scribble_independent_nonvacuous.

(* The specification oracle applied to the implementation's two runs is the Prop-level spec. *)
Theorem C13_spec_oracle_iff : forall k, c13_spec_code k = 0%nat <-> c13_spec k.
Proof. exact c13_spec_code_iff. Qed.
Print Assumptions C13_spec_oracle_iff.

(* The model's own two runs (fresh locations / reused + scribbled) agree on every
   history without the documented exceptions: what the checker's opaque branch uses. *)
Theorem C13_model_runs_agree : forall ops,
  (forall c bufs, In (Call c bufs) ops -> exception c = false) -> model_A ops = model_B ops.
Proof. exact model_runs_agree. Qed.
Print Assumptions C13_model_runs_agree.
