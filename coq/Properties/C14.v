(* C14 - FlexFEC-03 repair packets recover any single loss in their group.
   Statements only; proofs are in Proofs/FlexfecProofs.v and Proofs/FlexfecRefute.v.

   Vocabulary.  Model/Flexfec.v: [encode_fec e media n] is FlexEncoder03.EncodeFec on the marshalled
   media packets (after the two fix: commits), [Ok (Some rs)] = accepted.  [enc_inv e] holds for every
   encoder state reachable from NewFlexEncoder03 (C14_reachable_states).  Spec/FlexfecSpec.v is the
   receiver: [parse03] reads a FlexFEC-03 header (k-bit chain, masks -> protected positions [f_pos]),
   [recovers media d h pos] says: XOR-decoding repair payload d with all packets named by the mask
   except the one at [pos] returns that packet byte for byte - version bits forced to 2, P/X/CC/M/PT,
   sequence number (= SN base + pos), timestamp, SSRC, and every byte after the fixed header,
   at exactly the original length.
   Scope hypotheses [media_ok]: every packet has at least its 12-byte header and at most 65547 bytes,
   bytes are bytes, one SSRC per batch.  1 <= n <= 110 FEC packets (n > 110 indexes out of range: C02). *)
From IV Require Import Base.Word Model.Flexfec Spec.FlexfecSpec Proofs.FlexfecProofs Proofs.FlexfecRefute
  Check.C14Check.

(* generic XOR recovery: for ANY family of integer strings of any lengths, XOR-folding all but one
   (zero padded) into the fold of all gives back the missing one *)
Theorem C14_xor_recover : forall (l1 l2 : list (list Z)) (x : list Z),
  firstn (length x) (xorl (xor_all (l1 ++ x :: l2)) (xor_all (l1 ++ l2))) = x.
Proof. exact xor_recover_gen. Qed.
Print Assumptions C14_xor_recover.

(* which configurations are accepted: exactly 1..109 consecutive packets (any n <= 110 does not crash) *)
Theorem C14_accepts : forall e media n, enc_inv e -> accepts media n ->
  exists e' rs, encode_fec e media n = (e', Ok (Some rs)).
Proof. exact encode_fec_accepts. Qed.
Print Assumptions C14_accepts.

Theorem C14_accepted_only : forall e media n e' rs,
  encode_fec e media n = (e', Ok (Some rs)) -> 1 <= zlen media <= 109 /\ valid_batch media = true.
Proof. exact encode_fec_accepted_only. Qed.
Print Assumptions C14_accepted_only.

(* MAIN: every repair packet of every accepted batch, from every reachable encoder state, parses as a
   FlexFEC-03 header, names at least one packet, names only packets of the batch, and recovers each
   named packet from the others *)
Theorem C14_recover_single_loss : forall e media n e' rs,
  enc_inv e -> media_ok media -> 1 <= n <= 110 ->
  encode_fec e media n = (e', Ok (Some rs)) ->
  forall r, In r rs ->
    exists h, parse03 (r_payload r) = Some h /\ f_pos h <> [] /\
              forall pos, In pos (f_pos h) -> 0 <= pos < zlen media /\ recovers media (r_payload r) h pos.
Proof. exact recover_single_loss. Qed.
Print Assumptions C14_recover_single_loss.

(* every media packet is named by some repair packet (the one with FEC index i mod n) *)
Theorem C14_every_packet_covered : forall e media n e' rs,
  enc_inv e -> media_ok media -> 1 <= n <= 110 ->
  encode_fec e media n = (e', Ok (Some rs)) ->
  forall i, 0 <= i < zlen media -> exists r h, In r rs /\ parse03 (r_payload r) = Some h /\ In i (f_pos h).
Proof. exact every_packet_covered. Qed.
Print Assumptions C14_every_packet_covered.

(* the mask names exactly the packets that were combined: the payload is the encoding of precisely
   the packets at the parsed positions, and these are the indices congruent to one FEC index mod n *)
Theorem C14_mask_exact : forall e media n e' rs,
  enc_inv e -> media_ok media -> 1 <= n <= 110 ->
  encode_fec e media n = (e', Ok (Some rs)) ->
  forall r, In r rs ->
    exists h f m1 m2 m3, parse03 (r_payload r) = Some h /\ 0 <= f < n /\
      f_pos h = covered n (zlen media) f (length media) /\
      r_payload r = fec_payload (map (fun i => nth (Z.to_nat i) media []) (f_pos h))
                                (sn_of (hd [] media)) m1 m2 m3.
Proof. exact mask_exact. Qed.
Print Assumptions C14_mask_exact.

(* repair headers over any history of calls (accepted, declined, any shapes): FEC payload type and
   SSRC, sequence numbers counting up by one (mod 2^16) from the counter, across batches *)
Theorem C14_repair_headers : forall bs e, enc_ok e ->
  let out := emitted_of (run_batches e bs) in
  Forall (fun r => r_pt r = e_pt e /\ r_ssrc r = e_ssrc e) out /\
  map r_sn out = sns_from (e_sn e) (length out).
Proof. exact repair_headers_history. Qed.
Print Assumptions C14_repair_headers.

Theorem C14_reachable_states : forall pt ssrc bs,
  enc_ok (new_encoder pt ssrc) /\ enc_inv (enc_after (new_encoder pt ssrc) bs).
Proof. intros. split; [apply new_encoder_ok|apply enc_after_inv; exact I]. Qed.
Print Assumptions C14_reachable_states.

(* coverage reuse: what an encoder returns after any history is what a fresh encoder (same counter)
   returns; nothing of earlier batches (tables, media packets) leaks into later ones *)
Theorem C14_batches_independent : forall e media n, enc_inv e ->
  snd (encode_fec e media n) =
  snd (encode_fec {| e_sn := e_sn e; e_pt := e_pt e; e_ssrc := e_ssrc e; e_cov := None |} media n).
Proof. exact batches_independent. Qed.
Print Assumptions C14_batches_independent.

(* interceptor: for every history of writes, each write passes the written packet on first and
   unmodified; whatever follows are repair packets, and they are EncodeFec's for exactly the packets
   written since the previous batch *)
Theorem C14_media_first_unmodified : forall ws s,
  Forall2 (fun p r => match r with Ok outs => exists rs, outs = OMedia p :: map ORepair rs | Panic => True end)
          (firstn (length (i_run s ws)) ws) (i_run s ws).
Proof. exact icpt_history_media_first. Qed.
Print Assumptions C14_media_first_unmodified.

Theorem C14_interceptor_batch : forall s p,
  list_Z_eqb (ssrc_bytes p) (i_ssrc s) = true -> zlen (i_buf s ++ [p]) = i_nm s ->
  snd (i_write s p) = match snd (encode_fec (i_enc s) (i_buf s ++ [p]) (i_nf s)) with
                      | Panic => Panic
                      | Ok None => Ok [OMedia p]
                      | Ok (Some rs) => Ok (OMedia p :: map ORepair rs)
                      end.
Proof. exact icpt_batch. Qed.
Print Assumptions C14_interceptor_batch.

(* the oracle's recovery test is the Prop-level statement *)
Theorem C14_oracle_recovers_iff : forall media d h pos,
  recovers_b media d h pos = true <-> recovers media d h pos.
Proof. exact recovers_b_iff. Qed.
Print Assumptions C14_oracle_recovers_iff.

(* F16: the code before the fix (batches of 110 accepted) violates the property *)
Theorem C14_unfixed_110_refuted :
  zlen media110 = 110 /\ valid_batch media110 = true /\
  exists r h, first_repair (encode_fec_gen 110 (new_encoder 115 7) media110 1) = Some r /\
              parse03 (r_payload r) = Some h /\
              existsb (Z.eqb 109) (f_pos h) = false /\
              ~ recovers media110 (r_payload r) h 0.
Proof. exact unfixed_110_refuted. Qed.
Print Assumptions C14_unfixed_110_refuted.

(* non-vacuity of the hypotheses of the theorems above *)
Example C14_example_accepted : accepts media5 2 /\ media_ok media5.
Proof. exact (conj example_accepted example_media_ok). Qed.
Print Assumptions C14_example_accepted.

Example C14_example_two_repairs :
  match snd (encode_fec (new_encoder 115 7) media5 2) with
  | Ok (Some [r0; r1]) =>
      option_map f_pos (parse03 (r_payload r0)) = Some [0; 2; 4] /\
      option_map f_pos (parse03 (r_payload r1)) = Some [1; 3] /\ r_sn r0 = 1000 /\ r_sn r1 = 1001
  | _ => False
  end.
Proof. exact example_two_repairs. Qed.
Print Assumptions C14_example_two_repairs.
