(* C14 - placeholder while the pipeline is brought up; replaced by the real statements. *)
From IV Require Import Base.Word Model.Flexfec Spec.FlexfecSpec Check.C14Check.

Theorem C14_oracle_recovers_iff : forall media d h pos,
  recovers_b media d h pos = true <-> recovers media d h pos.
Proof. exact recovers_b_iff. Qed.
Print Assumptions C14_oracle_recovers_iff.
