(* C10 (round 4) - "... no call deadlocks": user callbacks and downstream writers invoked while a mutex is held.
   Statements only.  Label: PARTIAL (as C10.v: the faithfulness of what tools/lockscan extracts is trusted).

   sync.Mutex / sync.RWMutex are not re-entrant.  A call through a user-supplied function value, or through an
   interface of the interceptor API (the next element of the chain), made while a mutex is held, hands the
   thread - with the mutex - to code that may call the public getters of the object ("an observer calling public
   getters" belongs to the property's quantifier).  tools/lockscan (reentry.go) prints every such call site as
   (mutexes held, mutexes the public getters acquire): Generated/AccessTable.v [callback_sites].  The checker
   [callbacks_ok] adds the edges held x pub to the recorded lock-order edges and asks the graph to be acyclic.
   The theorems say what acceptance gives, that the shape "the getter takes the mutex the caller holds" is
   always rejected, and what that shape does on a machine with the grant rule of sync.Mutex. *)
From Coq Require Import ZArith List Bool Relations String.
From IV Require Import Model.LockTable Proofs.LockTableProofs Proofs.LockReentry Generated.AccessTable.
From IV Require Properties.C10.
Import ListNotations.
Open Scope Z_scope.

(* accepted => no waits-for cycle on the lock-order machine whose threads, inside a foreign call, may also
   request the mutexes of the public getters (edges ++ held x pub of every site) *)
Theorem C10d_callbacks_no_deadlock :
  forall (edges : list (Z * Z)) (sites : list site),
  callbacks_ok edges sites = true ->
  forall s, lreachable (edges ++ all_callback_edges sites) s ->
  forall t, ~ clos_trans_1n nat (waits_for s) t t.
Proof. exact callbacks_no_deadlock. Qed.
Print Assumptions C10d_callbacks_no_deadlock.

(* that machine does contain the callback: a thread holding no more than the mutexes of a site may request
   every mutex of the site's public getters ... *)
Theorem C10d_callback_may_call_the_getters :
  forall (edges : list (Z * Z)) (sites : list site) (st : site) (s : lstate) (t : nat) (p : Z),
  In st sites -> In p (snd st) ->
  (forall h, In h (held s t) -> In h (fst st)) ->
  want s t = None ->
  lstep (edges ++ all_callback_edges sites) s (mkL (held s) (upd (want s) t (Some p))).
Proof. exact callback_request_is_a_step. Qed.
Print Assumptions C10d_callback_may_call_the_getters.

(* ... and every trace of the machine of C10.v (recorded edges only) is one of its traces *)
Theorem C10d_machine_contains_lock_order_machine :
  forall (edges : list (Z * Z)) (sites : list site) s,
  lreachable edges s -> lreachable (edges ++ all_callback_edges sites) s.
Proof. intros edges sites s. apply lreachable_mono. intros x Hx. apply in_or_app. now left. Qed.
Print Assumptions C10d_machine_contains_lock_order_machine.

(* a site where a public getter acquires a mutex that is held at the call is rejected - wherever it stands among
   the sites, whatever the other edges are *)
Theorem C10d_callback_under_getter_lock_rejected :
  forall (edges : list (Z * Z)) (sites : list site) (st : site) (l : Z),
  In st sites -> In l (fst st) -> In l (snd st) ->
  callbacks_ok edges sites = false.
Proof.
  intros edges sites st l Hs Hh Hp. apply (reentrant_site_rejected edges sites st Hs).
  apply site_reentrant_spec. eauto.
Qed.
Print Assumptions C10d_callback_under_getter_lock_rejected.

(* what the rejected shape means, 1: on the lock-order machine the thread comes to wait for itself *)
Theorem C10d_reentrant_callback_waits_for_itself :
  forall (edges : list (Z * Z)) (l : Z) (t : nat),
  In (l, l) edges -> exists s, lreachable edges s /\ waits_for s t t.
Proof. exact self_edge_reaches_self_wait. Qed.
Print Assumptions C10d_reentrant_callback_waits_for_itself.

(* 2: with the grant rule of sync.Mutex (granted only when nobody holds it) a thread that requests a mutex it
   holds - the callback calling the getter - still holds it and still waits in EVERY later state ... *)
Theorem C10d_reentrant_callback_never_returns :
  forall (s : lstate) (t : nat) (l : Z),
  In l (held s t) -> want s t = Some l ->
  forall s', msteps s s' -> In l (held s' t) /\ want s' t = Some l.
Proof. intros s t l Hh Hw. exact (reentrant_request_blocks_forever s t l (conj Hh Hw)). Qed.
Print Assumptions C10d_reentrant_callback_never_returns.

(* ... so does every other thread that asks for the mutex (an observer in a public getter, the next traffic call) *)
Theorem C10d_reentrant_callback_blocks_every_getter :
  forall (s : lstate) (t : nat) (l : Z),
  In l (held s t) -> want s t = Some l ->
  forall s', msteps s s' -> forall t', want s t' = Some l -> want s' t' = Some l.
Proof. intros s t l Hh Hw. exact (reentrant_request_blocks_observers s t l (conj Hh Hw)). Qed.
Print Assumptions C10d_reentrant_callback_blocks_every_getter.

(* non-vacuity of the two theorems above: the state is reachable from the initial state *)
Theorem C10d_reentrant_state_reachable :
  forall (t : nat) (l : Z), exists s, msteps linit s /\ In l (held s t) /\ want s t = Some l.
Proof. intros t l. destruct (reentrant_state_reachable t l) as [s [Hr [Hh Hw]]]. eauto. Qed.
Print Assumptions C10d_reentrant_state_reachable.

(* ---- the per-run proof obligation on the sites regenerated from the working tree ---- *)

Example C10d_callback_sites_ok : callbacks_ok AccessTable.lock_edges AccessTable.callback_sites = true.
Proof. vm_compute; reflexivity. Qed.
Print Assumptions C10d_callback_sites_ok.

(* ---- the instance (partial: rests on the faithfulness of lockscan's call sites, lock sets and getters) ---- *)

Theorem C10d_interceptors_callbacks_deadlock_free_partial :
  forall s, lreachable (AccessTable.lock_edges ++ all_callback_edges AccessTable.callback_sites) s ->
  forall t, ~ clos_trans_1n nat (waits_for s) t t.
Proof. exact (callbacks_no_deadlock _ _ C10d_callback_sites_ok). Qed.
Print Assumptions C10d_interceptors_callbacks_deadlock_free_partial.

(* ---- non-vacuity of the checker ---- *)

(* the shape of the missed change: the estimator's bitrate callback called under the mutex GetTargetBitrate takes *)
Example C10d_rejects_callback_under_getter_lock :
  callbacks_ok [(7, 3); (7, 8)] [([5], []); ([7], [7])] = false.
Proof. reflexivity. Qed.
Print Assumptions C10d_rejects_callback_under_getter_lock.

(* a cycle through a callback: the callback runs under A, a getter takes B, and elsewhere A is taken under B *)
Example C10d_rejects_cycle_through_callback :
  callbacks_ok [(2, 1)] [([1], [2])] = false.
Proof. reflexivity. Qed.
Print Assumptions C10d_rejects_cycle_through_callback.

(* accepted: the callback runs under a mutex no getter takes *)
Example C10d_accepts_callback_under_private_lock :
  callbacks_ok [(7, 3); (7, 8)] [([5], []); ([6], [7])] = true.
Proof. reflexivity. Qed.
Print Assumptions C10d_accepts_callback_under_private_lock.
