(* Source ties of C18, statements only.  Every theorem says that a hand-written model function that the
   property theorems are about IS (equal to, or refined by under the stated representation of
   the state) the Gallina definition that tools/go2coq regenerates from the Go source on this run
   (coq/Generated/GoCoresC18.v).  Proofs: coq/Proofs/GeneratedEqC18.v.  The theorem name starts with
   the id of the property it belongs to.

   Conventions.  uintN parameters carry their range hypothesis 0 <= x < 2^N explicitly.
   [bits_of p q] is bit q mod 64 of word q / 64 of the []uint64 bitmap p; [nack_rep sz p f] /
   [rs_rep p f] say that the model's bitmap f (position -> bool) is p read bit by bit;
   [chunk_of] is the model's record for a Go chunk {hasLargeDelta, hasDifferentTypes, deltas}.
   time.Time is the model's [option Z], float64 any type (both are only copied by the functions
   concerned).  g_f_safe = true: the Go function does not panic on these inputs. *)
From IV Require Import Base.Word.
From IV Require Model.ReceiveLog Proofs.ReceiveLogProofs Model.ReceiverStream Model.SenderStream Model.TwccChunk
  Model.ArrivalMap Model.Flexfec Model.GccDecision Model.MemBound Model.PriorityQueue Model.JitterBuffer Spec.FlexfecSpec.
From IV Require Import Base.GoPrelude Proofs.GoPreludeProofs Generated.GoCoresC18 Proofs.GeneratedEqC18.
Import ReceiveLogProofs.

(* pkg/jitterbuffer: PriorityQueue.Length, JitterBuffer.updateStats / SetPlayoutHead / PlayoutHead *)

Theorem C18_model_is_the_source_Length : forall q,
  g_jitterbuffer_PriorityQueue_Length (PriorityQueue.qlen q) = PriorityQueue.pq_length q.
Proof. exact gen_jb_Length_eq. Qed.
Print Assumptions C18_model_is_the_source_Length.

Theorem C18_model_is_the_source_updateStats :
  forall (Q : Type) (O : JitterBuffer.pq_ops Q) (s : JitterBuffer.jb Q) sq ts q',
  JitterBuffer.o_push O (JitterBuffer.jpackets s) (Some (PriorityQueue.mkPkt (JitterBuffer.jnextid s) sq ts)) sq = PriorityQueue.Ok q' ->
  let s' := fst (fst (JitterBuffer.jb_step O s (JitterBuffer.OPush sq ts))) in
  g_jitterbuffer_JitterBuffer_updateStats (JitterBuffer.o_len O (JitterBuffer.jpackets s)) (JitterBuffer.jlast s) (JitterBuffer.jooo s) sq
    = (JitterBuffer.jlast s', JitterBuffer.jooo s').
Proof. exact gen_jb_updateStats_eq. Qed.
Print Assumptions C18_model_is_the_source_updateStats.

Theorem C18_model_is_the_source_SetPlayoutHead : forall (Q : Type) (O : JitterBuffer.pq_ops Q) (s : JitterBuffer.jb Q) h,
  g_jitterbuffer_JitterBuffer_SetPlayoutHead h = JitterBuffer.jhead (fst (fst (JitterBuffer.jb_step O s (JitterBuffer.OSetHead h)))).
Proof. exact gen_jb_SetPlayoutHead_eq. Qed.
Print Assumptions C18_model_is_the_source_SetPlayoutHead.

Theorem C18_model_is_the_source_PlayoutHead : forall (Q : Type) (O : JitterBuffer.pq_ops Q) (s : JitterBuffer.jb Q),
  JitterBuffer.RHead (g_jitterbuffer_JitterBuffer_PlayoutHead (JitterBuffer.jhead s)) = snd (fst (JitterBuffer.jb_step O s JitterBuffer.OHead)).
Proof. exact gen_jb_PlayoutHead_eq. Qed.
Print Assumptions C18_model_is_the_source_PlayoutHead.
