(* Source ties of C06, statements only.  Every theorem says that a hand-written model function that the
   property theorems are about IS (equal to, or refined by under the stated representation of
   the state) the Gallina definition that tools/go2coq regenerates from the Go source on this run
   (coq/Generated/GoCoresC06.v).  Proofs: coq/Proofs/GeneratedEqC06.v.  The theorem name starts with
   the id of the property it belongs to.

   Conventions.  uintN parameters carry their range hypothesis 0 <= x < 2^N explicitly.
   [bits_of p q] is bit q mod 64 of word q / 64 of the []uint64 bitmap p; [nack_rep sz p f] /
   [rs_rep p f] say that the model's bitmap f (position -> bool) is p read bit by bit;
   [chunk_of] is the model's record for a Go chunk {hasLargeDelta, hasDifferentTypes, deltas}.
   time.Time is the model's [option Z], float64 any type (both are only copied by the functions
   concerned).  g_f_safe = true: the Go function does not panic on these inputs. *)
From IV Require Import Base.Word.
From IV Require Model.ReceiveLog Proofs.ReceiveLogProofs Model.ReceiverStream Model.SenderStream Model.TwccChunk
  Model.ArrivalMap Model.Flexfec Model.GccDecision Model.MemBound Model.PriorityQueue Model.JitterBuffer Spec.FlexfecSpec.
From IV Require Import Base.GoPrelude Proofs.GoPreludeProofs Generated.GoCoresC06 Proofs.GeneratedEqC06.
Import ReceiveLogProofs.

(* pkg/report/receiver_stream.go; size = 128 words as newReceiverStream allocates *)

Theorem C06_model_is_the_source_getReceived : forall p f seq,
  0 <= seq < 65536 -> rs_rep p f ->
  g_report_receiverStream_getReceived 128 p seq = f (ReceiverStream.slot seq).
Proof. exact gen_report_getReceived_eq. Qed.
Print Assumptions C06_model_is_the_source_getReceived.

Theorem C06_model_is_the_source_setReceived : forall p f seq,
  0 <= seq < 65536 -> g_len p = 128 -> rs_rep p f ->
  rs_rep (g_report_receiverStream_setReceived 128 p seq) (ReceiverStream.set_bit f (ReceiverStream.slot seq)).
Proof. exact gen_report_setReceived_eq. Qed.
Print Assumptions C06_model_is_the_source_setReceived.

Theorem C06_model_is_the_source_delReceived : forall p f seq,
  0 <= seq < 65536 -> g_len p = 128 -> rs_rep p f ->
  rs_rep (g_report_receiverStream_delReceived 128 p seq) (ReceiverStream.del_bit f (ReceiverStream.slot seq)).
Proof. exact gen_report_delReceived_eq. Qed.
Print Assumptions C06_model_is_the_source_delReceived.

Theorem C06_source_no_panic_bitmap : forall p seq,
  0 <= seq < 65536 -> g_len p = 128 ->
  g_report_receiverStream_setReceived_safe 128 p seq = true /\
  g_report_receiverStream_delReceived_safe 128 p seq = true /\
  g_report_receiverStream_getReceived_safe 128 p seq = true.
Proof. exact gen_report_bitmap_safe. Qed.
Print Assumptions C06_source_no_panic_bitmap.

Theorem C06_model_is_the_source_processSenderReport : forall (J : Type) (st : ReceiverStream.rstate J) now ntp,
  g_report_receiverStream_processSenderReport (Some now) ntp =
    (ReceiverStream.r_lsr (ReceiverStream.r_sr J st now ntp), ReceiverStream.r_lsr_time (ReceiverStream.r_sr J st now ntp)).
Proof. exact gen_report_processSenderReport_eq. Qed.
Print Assumptions C06_model_is_the_source_processSenderReport.

