(* C10 - Interceptors are free of data races under every permitted concurrent use.
   Statements only.  Label: PARTIAL.

   What is proved (kernel-checked, for every table, any number of threads, every interleaving):
   a table accepted by [drf_ok] has no data race, loses no increment, and a lock-order graph
   accepted by [lock_order_acyclic] has no waits-for cycle.
   What is re-checked on every run: [C10_table_ok] / [C10_lock_order_ok] on the table that
   tools/lockscan has just regenerated from the Go working tree (coq/Generated/AccessTable.v).
   What is trusted (hence _partial on the instance): that the table is faithful to the Go
   sources (the lexical analyser lockscan), the ownership annotations in
   tools/lockscan/ownership.txt that assign thread classes / virtual locks, and that Go's
   sync.Mutex / RWMutex / atomics / go statement behave like the abstract machine. *)
From Coq Require Import ZArith List Bool Relations String.
From IV Require Import Model.LockTable Proofs.LockTableProofs Generated.AccessTable.
Import ListNotations.
Open Scope Z_scope.
Open Scope string_scope.

(* no data race: two different threads are never inside conflicting accesses *)
Theorem C10_lockset_drf :
  forall (tbl : list row) (creator : nat) (cthread : Z -> nat) (mem0 : Z -> Z),
  drf_ok tbl = true ->
  forall s, reachable tbl creator cthread mem0 s ->
  forall t1 t2 r1 r2, t1 <> t2 -> active s t1 = Some r1 -> active s t2 = Some r2 ->
  conflict r1 r2 = false.
Proof. exact lockset_drf. Qed.
Print Assumptions C10_lockset_drf.

(* ... and a conflicting access is not even enabled while another thread is inside one *)
Theorem C10_conflicting_access_not_enabled :
  forall (tbl : list row) (creator : nat) (cthread : Z -> nat) (mem0 : Z -> Z),
  drf_ok tbl = true ->
  forall s, reachable tbl creator cthread mem0 s ->
  forall t1 t2 r1 r2, t1 <> t2 -> active s t1 = Some r1 -> active s t2 = None ->
  row_ok tbl creator cthread s t2 r2 -> conflict r1 r2 = false.
Proof. exact lockset_drf_enabled. Qed.
Print Assumptions C10_conflicting_access_not_enabled.

(* counters and sequence allocations lose no update *)
Theorem C10_rmw_not_lost :
  forall (tbl : list row) (creator : nat) (cthread : Z -> nat) (mem0 : Z -> Z),
  drf_ok tbl = true ->
  forall l, counter_loc tbl l = true ->
  forall s, reachable tbl creator cthread mem0 s -> mem s l = mem0 l + incs s l.
Proof. exact rmw_not_lost. Qed.
Print Assumptions C10_rmw_not_lost.

(* no mutex deadlock: the waits-for graph has no cycle *)
Theorem C10_lock_order_no_deadlock :
  forall edges, lock_order_acyclic edges = true ->
  forall s, lreachable edges s -> forall t, ~ clos_trans_1n nat (waits_for s) t t.
Proof. exact lock_order_no_deadlock. Qed.
Print Assumptions C10_lock_order_no_deadlock.

(* ---- the per-run proof obligations on the regenerated table ---- *)

Example C10_table_ok : drf_ok AccessTable.table = true.
Proof. vm_compute; reflexivity. Qed.
Print Assumptions C10_table_ok.

Example C10_lock_order_ok : lock_order_acyclic AccessTable.lock_edges = true.
Proof. vm_compute; reflexivity. Qed.
Print Assumptions C10_lock_order_ok.

(* ---- the instance (partial: rests on the faithfulness of the table) ---- *)

Theorem C10_interceptors_race_free_partial :
  forall (creator : nat) (cthread : Z -> nat) (mem0 : Z -> Z) s,
  reachable AccessTable.table creator cthread mem0 s ->
  (forall t1 t2 r1 r2, t1 <> t2 -> active s t1 = Some r1 -> active s t2 = Some r2 -> conflict r1 r2 = false)
  /\ (forall l, counter_loc AccessTable.table l = true -> mem s l = mem0 l + incs s l).
Proof.
  intros creator cthread mem0 s Hr. split.
  - exact (lockset_drf _ _ _ _ C10_table_ok s Hr).
  - intros l Hc. exact (rmw_not_lost _ _ _ _ C10_table_ok l Hc s Hr).
Qed.
Print Assumptions C10_interceptors_race_free_partial.

Theorem C10_interceptors_deadlock_free_partial :
  forall s, lreachable AccessTable.lock_edges s -> forall t, ~ clos_trans_1n nat (waits_for s) t t.
Proof. exact (lock_order_no_deadlock _ C10_lock_order_ok). Qed.
Print Assumptions C10_interceptors_deadlock_free_partial.

(* ---- non-vacuity ---- *)

(* the checker rejects the shape of F39: a write under a read lock, executable by any thread *)
Example C10_drf_ok_rejects_write_under_rlock :
  drf_ok [mkRow 0 1 KWrite [(0, LR)] CAny [] PTraffic [] ""] = false.
Proof. reflexivity. Qed.
Print Assumptions C10_drf_ok_rejects_write_under_rlock.

(* ... and an increment outside its critical section *)
Example C10_drf_ok_rejects_unlocked_rmw :
  drf_ok [mkRow 0 1 KRmw [] CAny [] PTraffic [] ""; mkRow 0 1 KRead [(0, LW)] CAny [] PGetter [] ""] = false.
Proof. reflexivity. Qed.
Print Assumptions C10_drf_ok_rejects_unlocked_rmw.

(* the machine is not empty: with an accepted table two threads do get inside (non-conflicting)
   accesses at the same time, so the hypotheses of C10_lockset_drf are satisfiable *)
Example C10_machine_nonvacuous :
  let rd := mkRow 0 1 KRead [(0, LR)] CAny [] PGetter [] "" in
  let tbl := [rd; mkRow 0 1 KRmw [(0, LW)] CAny [] PTraffic [] ""] in
  drf_ok tbl = true /\
  exists s, reachable tbl 0%nat (fun _ => 0%nat) (fun _ => 0) s /\
            active s 1%nat = Some rd /\ active s 2%nat = Some rd.
Proof.
  cbv zeta. split; [reflexivity|].
  eexists. split.
  - eapply RS. eapply RS. eapply RS. eapply RS. eapply RS. apply R0.
    + apply SPublish; reflexivity.
    + apply (SAcquire _ _ _ _ 1%nat 0 LR); [discriminate | intros _ t' []].
    + apply (SAcquire _ _ _ _ 2%nat 0 LR); [discriminate|].
      intros _ t' H. cbn in H. destruct H as [H|[]]. discriminate.
    + apply (SBegin _ _ _ _ 1%nat (mkRow 0 1 KRead [(0, LR)] CAny [] PGetter [] "")); [reflexivity|].
      split; [now left|]. split; [|split; [reflexivity | intros k []]].
      intros l m [E|[]]. inversion E; subst. exists LR. split; [cbn; auto | discriminate].
    + apply (SBegin _ _ _ _ 2%nat (mkRow 0 1 KRead [(0, LR)] CAny [] PGetter [] "")); [reflexivity|].
      split; [now left|]. split; [|split; [reflexivity | intros k []]].
      intros l m [E|[]]. inversion E; subst. exists LR. split; [cbn; auto | discriminate].
  - split; reflexivity.
Qed.
Print Assumptions C10_machine_nonvacuous.
