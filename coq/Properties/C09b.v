(* C09, deepening round - statements only.  Proofs: Proofs/RtpfbHistoryProofs.v
   (rtpfb history), Proofs/FbAdapterMore.v + Proofs/C09OracleLink.v (history =
   recent 250, oracle decode), Proofs/FbRoundTrip.v, FbRoundTripRec.v,
   FbRoundTrip8888.v (round trips with the C05 / C08 generator models).

   Vocabulary of the rtpfb half (Spec/RtpfbSpec.v).  A history is a list of calls
   [hop] on pkg/rtpfb's history: HAdd (addOutgoing), HFbTw (onTWCCFeedback),
   HFbCc (onCCFBFeedback), HReport (buildReport); [hrun h_init evs] gives, per
   call, the PacketReports it returned.  [rev (firstn j evs)] is the list of the
   first j calls, most recent first.  For such a list r:
     nsends r       = number of addOutgoing calls,
     send_rec r c   = the PacketReport of the c-th addOutgoing call as stored when sent,
     latest_tw r q / latest_cc r s q = counter of the most recent packet sent with
                      TWCC number q / with (ssrc s, RTP number q),
     spec_status r c = (Arrived, Arrival, ECN) of the LATEST feedback call whose
                      sequence number designated packet c at the time of the call
                      (c was then the most recent packet sent under that number);
                      (false, 0, 0) if there is none,
     report_entry_ok r p  <->  p = send_rec r (p_ctr p) with its status fields
                      replaced by spec_status r (p_ctr p).
   None of these mentions the packet map, the index maps, deletion or the cursor. *)
From IV Require Import Base.Word Model.FbAdapter Model.RtpfbConvert Model.RtpfbHistory Spec.FbSpec Spec.RtpfbSpec.
From IV Require Import Proofs.RtpfbHistoryProofs Proofs.RtpfbHistoryFull Proofs.RtpfbConvertProofs
  Proofs.FbAdapterProofs Proofs.FbAdapterMore.
From Coq Require Import Sorted.

(* ---------------- rtpfb: at most once, in send order ---------------- *)

(* For EVERY history of addOutgoing / onTWCCFeedback / onCCFBFeedback / buildReport
   calls (fewer than 2^64 packets, the width of the counter): the counters of all
   PacketReports ever returned, in the order returned, increase strictly.  The
   counter is the send index (C09_report_entry_is_the_send), so every sent packet is
   reported at most once across all reports and reports follow send order. *)
Theorem C09_at_most_once_in_order : forall evs,
  nsends (rev evs) < W64 ->
  StronglySorted Z.lt (map p_ctr (concat (hrun h_init evs))).
Proof. exact rtpfb_at_most_once_in_order. Qed.
Print Assumptions C09_at_most_once_in_order.

(* Every entry of the report returned by the j-th call is the record of the send
   with that counter (SSRC, RTP and TWCC sequence numbers, IsTWCC, size, departure)
   carrying exactly the status / arrival / ECN of the latest feedback about that
   packet among the first j calls. *)
Theorem C09_report_entry_is_latest_feedback : forall evs j p,
  nsends (rev evs) < W64 ->
  In p (nth j (hrun h_init evs) []) ->
  report_entry_ok (rev (firstn j evs)) p.
Proof. exact rtpfb_report_entries. Qed.
Print Assumptions C09_report_entry_is_latest_feedback.

(* reading of report_entry_ok: the entry names the packet that was sent c-th *)
Theorem C09_report_entry_is_the_send : forall r p,
  report_entry_ok r p ->
  exists q, send_rec r (p_ctr p) = Some q /\ 0 <= p_ctr p < nsends r /\
    p_ssrc p = p_ssrc q /\ p_rtpseq p = p_rtpseq q /\ p_istwcc p = p_istwcc q /\ p_twseq p = p_twseq q /\
    p_size p = p_size q /\ p_dep p = p_dep q /\
    (p_arrived p, p_arrival p, p_ecn p) = spec_status r (p_ctr p).
Proof. exact entry_is_the_send. Qed.
Print Assumptions C09_report_entry_is_the_send.

(* non-vacuity: three packets (one retransmitted under the same TWCC number), feedback
   designating the retransmission, a second feedback overriding the first: one report,
   counters 0 1 2, the status of packet 2 is that of the latest feedback *)
Example C09_rtpfb_nonvacuous :
  hrun h_init [HAdd 7 100 true 10 1200 5; HAdd 7 101 true 11 1201 6; HAdd 7 100 true 10 1200 7;
               HFbTw (10, true, 900, 0); HFbTw (11, false, 0, 0); HFbTw (10, true, 950, 1); HReport; HReport]
  = [[]; []; []; []; []; [];
     [mkPrep 7 0 100 true 10 1200 5 false 0 0; mkPrep 7 1 101 true 11 1201 6 false 0 0;
      mkPrep 7 2 100 true 10 1200 7 true 950 1]; []].
Proof. vm_compute. reflexivity. Qed.
Print Assumptions C09_rtpfb_nonvacuous.

(* The same for the Interceptor model (BindLocalStream writes and RTCP reads with
   convertTWCC / convertCCFB in between), for every reference-time function. *)
Theorem C09_interceptor_at_most_once_in_order : forall reft32 ops,
  Z.of_nat (length ops) < W64 ->
  StronglySorted Z.lt (map p_ctr (concat (rrun reft32 h_init ops))).
Proof. exact rtpfb_interceptor_at_most_once_in_order. Qed.
Print Assumptions C09_interceptor_at_most_once_in_order.

Theorem C09_interceptor_report_entries : forall reft32 ops1 now pkts ops2 p,
  Z.of_nat (length (ops1 ++ RRead now pkts :: ops2)) < W64 ->
  In p (nth (length ops1) (rrun reft32 h_init (ops1 ++ RRead now pkts :: ops2)) []) ->
  report_entry_ok (rev (flat_map (rop_events reft32) ops1 ++ flat_map (pkt_events reft32 now) pkts)) p.
Proof. exact rtpfb_interceptor_report_entries. Qed.
Print Assumptions C09_interceptor_report_entries.

(* ---------------- rtpfb: complete functional specification ---------------- *)

(* [spec_cursor r] = (cursor, high mark): the cursor starts at 0 and a buildReport moves it
   just above the high mark; the high mark is the highest packet a feedback acknowledged as
   ARRIVED while that packet was at or above the cursor (feedback designates the most recent
   packet sent under its sequence number).  [spec_report r] = the packets cursor..high mark,
   each as send record + latest status ([] when the high mark is below the cursor);
   [spec_run] = one [spec_report] per buildReport call.
   For EVERY call history the model's outputs EQUAL this specification: each report holds
   exactly the not yet reported packets up to the highest one acknowledged as arrived - none
   missing, none twice, in send order, with the latest status. *)
Theorem C09_rtpfb_history_is_spec : forall evs,
  nsends (rev evs) < W64 -> hrun h_init evs = spec_run [] evs.
Proof. exact rtpfb_history_is_spec. Qed.
Print Assumptions C09_rtpfb_history_is_spec.

(* ... and for the Interceptor model: the Report attribute of every read is spec_report of
   the calls made so far (writes, and the acknowledgements convertTWCC / convertCCFB extract
   from the packets read, in order) *)
Theorem C09_rtpfb_interceptor_is_spec : forall reft32 ops,
  Z.of_nat (length ops) < W64 -> rrun reft32 h_init ops = rspec_run reft32 [] ops.
Proof. exact rtpfb_interceptor_is_spec. Qed.
Print Assumptions C09_rtpfb_interceptor_is_spec.

(* ---------------- rtpfb: what convertTWCC / convertCCFB extract ---------------- *)

(* Range (the property's "sequence numbers outside the range the feedback declares are not
   reported"), unconditionally, for pkg/rtpfb: every acknowledgement convertTWCC extracts is
   for sequence number base + k with 0 <= k < PacketStatusCount.  (For the cc adapter this
   is refuted: C09_beyond_count_refuted.) *)
Theorem C09_rtpfb_twcc_range : forall base count ref24 cs ds,
  Forall (fun a : fack => exists k, 0 <= k < count /\ fst (fst (fst a)) = u16 (base + u16 k))
         (convert_twcc base count ref24 cs ds).
Proof. exact convert_twcc_range. Qed.
Print Assumptions C09_rtpfb_twcc_range.

(* Position semantics of convertTWCC in closed form, for every packet with at least as many
   deltas as delta-carrying symbols below the count (rtcp.Unmarshal's guarantee): offset by
   offset below min(count, symbols), sequence number base + k, status = symbol k (0 lost,
   1/2 arrived at arrival_at k, 3 arrived at the zero time, other values nothing). *)
Theorem C09_rtpfb_twcc_decode : forall base count ref24 cs ds,
  (ndeltas (firstn (Z.to_nat count) (symbols cs)) <= length ds)%nat ->
  convert_twcc base count ref24 cs ds =
  flat_map (fun k => fack_at base (Z.of_nat k) (nth k (symbols cs) 0) (arrival_at ref24 (symbols cs) ds k))
           (seq 0 (Nat.min (Z.to_nat count) (length (symbols cs)))).
Proof. exact convert_twcc_closed. Qed.
Print Assumptions C09_rtpfb_twcc_decode.

Example C09_rtpfb_twcc_decode_nonvacuous :
  convert_twcc 65535 3 1 [SV [1; 0; 2; 1; 0; 0; 0]] [1000; -250] =
  [(65535, true, 65000000, 0); (0, false, 0, 0); (1, true, 64750000, 0)].
Proof. vm_compute. reflexivity. Qed.
Print Assumptions C09_rtpfb_twcc_decode_nonvacuous.

(* convertCCFB: metric block n of a report block is about sequence number begin + n and
   carries its received flag, ECN and reference - ato/1024 s (zero time for ato 0x1FFF) *)
Theorem C09_rtpfb_ccfb_block : forall reft mbs seq n,
  0 <= seq < 65536 -> (n < length mbs)%nat ->
  length (convert_mblocks reft seq mbs) = length mbs /\
  nth n (convert_mblocks reft seq mbs) (0, false, 0, 0) =
  mb_fack reft (u16 (seq + Z.of_nat n)) (nth n mbs (false, 0, 0)).
Proof. exact convert_mblocks_block. Qed.
Print Assumptions C09_rtpfb_ccfb_block.

(* ---------------- cc adapter: the history IS the oracle's specification ---------------- *)

(* After any operation list the adapter's bounded LRU history equals the 250 most
   recently sent distinct (ssrc, sequence number) keys of the unbounded send log, most
   recent first, each with its most recent record (Spec/FbSpec.v: recent, dedup). *)
Theorem C09_history_is_recent_250 : forall reftime ops,
  final reftime [] ops = recent 250 (send_log ops []).
Proof. exact history_is_recent_250. Qed.
Print Assumptions C09_history_is_recent_250.

(* The one-pass decode used by the run-time oracle agrees with arrival_at: for a feedback
   carrying enough deltas up to offset k, entry k is Some t exactly when symbol k carries
   a delta and t = arrival_at k. (Proofs/C09OracleLink.v shows Check/C09Check.v's [arrivals]
   is this function and that the oracle's history is the model's.) *)
Theorem C09_arrivals_iff : forall ref24 syms ds k t,
  (k < length syms)%nat -> (ndeltas (firstn (S k) syms) <= length ds)%nat ->
  (nth k (arrivals_spec (ref24 * 64000000) syms ds) None = Some t <->
   is_delta_sym (nth k syms 0) = true /\ t = arrival_at ref24 syms ds k).
Proof. exact arrivals_arrival_at_iff. Qed.
Print Assumptions C09_arrivals_iff.

(* ---------------- round trip with the library's own generators ---------------- *)
From IV Require Import Model.TwccChunk Proofs.TwccFeedbackProofs Proofs.FbRoundTrip Proofs.FbRoundTripRec.
From IV Require Proofs.FbRoundTripRtpfb Model.TwccRecorder Model.StreamLog Model.Rfc8888Recorder Proofs.StreamLogProofs Proofs.Rfc8888Proofs
  Proofs.FbRoundTrip8888.

(* TWCC, feedback-builder level (C05 model: newFeedback/setBase, addReceived, getRTCP and
   the wire form).  For EVERY feedback that setBase(b, t0) followed by any list tr of
   ACCEPTED addReceived(s, t) calls can produce (fb_adds; 16-bit sequence numbers; t0 below
   the 24-bit reference-time range, ~12.4 days), for every send history h: the adapter
   accepts the packet, and for every recorded arrival (s, t) there is an offset k with
   base + k = s (mod 2^16) whose acknowledgement is the history record of s with an arrival
   time within 125 us of t (times: feedback us, adapter ns) - or the zero value if s is not
   in the history (F12).  [chunk_of_wire] reads a parsed wire chunk as the rtcp chunk value. *)
Theorem C09_roundtrip_twcc : forall b t0 tr f sender media fbc h,
  0 <= b < 65536 -> 0 <= Z.quot t0 64000 < 16777216 ->
  Forall (fun e : Z * Z => 0 <= fst e < 65536) tr ->
  fb_adds (fb_new b t0) tr = Some f ->
  let p := fb_get_rtcp sender media fbc f in
  exists acks,
    on_twcc h (p_base p) (p_ref p) (map chunk_of_wire (p_chunks p)) (map snd (p_deltas p)) = Some acks /\
    Forall (fun e : Z * Z =>
      let '(s, t) := e in
      exists k T, (k < length acks)%nat /\ (p_base p + Z.of_nat k) mod 65536 = s /\
        Z.abs (T - t * 1000) <= 125000 /\
        nth k acks zero_ack = match hget h 0 s with Some a => set_arr a T | None => zero_ack end) tr.
Proof. exact roundtrip_twcc. Qed.
Print Assumptions C09_roundtrip_twcc.

Example C09_roundtrip_twcc_nonvacuous :
  match fb_adds (fb_new 5 1000) [(5, 1000); (7, 1300); (8, 70000)] with
  | Some f =>
      let p := fb_get_rtcp 1 2 0 f in
      on_twcc [(7, 0, 1200, 9, 0, 0)] (p_base p) (p_ref p) (map chunk_of_wire (p_chunks p)) (map snd (p_deltas p))
      = Some [zero_ack; zero_ack; (7, 0, 1200, 9, 1250000, 0); zero_ack; zero_ack; zero_ack; zero_ack]
  | None => False
  end.
Proof. vm_compute. reflexivity. Qed.
Print Assumptions C09_roundtrip_twcc_nonvacuous.

(* The complete round trip ("exactly what was recorded"): syms = the statuses the builder was
   fed.  The adapter returns one entry per status plus fewer than 7 for the padding of the last
   chunk; every recorded arrival is acknowledged at its offset within 125 us
   ([arrival_ack h base acks k s t]: entry k is the history record of s = base + k with an arrival
   time within 125 us of t, or the zero value when s is not in the history); and EVERY offset
   below the status count is either such a recorded arrival or reads "not received" (the history
   record unchanged): no phantom arrivals, no arrival dropped. *)
Theorem C09_roundtrip_twcc_exact : forall b t0 tr f sender media fbc h,
  0 <= b < 65536 -> 0 <= Z.quot t0 64000 < 16777216 ->
  Forall (fun e : Z * Z => 0 <= fst e < 65536) tr ->
  fb_adds (fb_new b t0) tr = Some f ->
  let p := fb_get_rtcp sender media fbc f in
  exists syms acks k7,
    fb_inv f syms /\ (k7 < 7)%nat /\
    on_twcc h (p_base p) (p_ref p) (map chunk_of_wire (p_chunks p)) (map snd (p_deltas p)) = Some acks /\
    length acks = (length syms + k7)%nat /\
    Forall (fun e : Z * Z => exists k, arrival_ack h (p_base p) acks k (fst e) (snd e)) tr /\
    forall k, (k < length syms)%nat ->
      (exists s t, In (s, t) tr /\ arrival_ack h (p_base p) acks k s t) \/
      nth k acks zero_ack =
        match hget h 0 ((p_base p + Z.of_nat k) mod 65536) with Some a => a | None => zero_ack end.
Proof. exact roundtrip_twcc_exact. Qed.
Print Assumptions C09_roundtrip_twcc_exact.

(* End to end with the adapter's own bounded history: after ANY operation list, one more
   step feeding such a feedback returns no error and acknowledges, for every recorded arrival
   (s, t), the most recent send with TWCC number s among the 250 most recently sent distinct
   packets (C09_history_is_recent_250) with an arrival time within 125 us of t. *)
Theorem C09_roundtrip_twcc_end_to_end : forall reftime ops b t0 tr f sender media fbc,
  0 <= b < 65536 -> 0 <= Z.quot t0 64000 < 16777216 ->
  Forall (fun e : Z * Z => 0 <= fst e < 65536) tr ->
  fb_adds (fb_new b t0) tr = Some f ->
  let p := fb_get_rtcp sender media fbc f in
  let H := recent 250 (send_log ops []) in
  exists acks,
    snd (step reftime (final reftime [] ops)
              (FbTwcc (p_base p) (p_count p) (p_ref p) (map chunk_of_wire (p_chunks p)) (map snd (p_deltas p))))
    = (0, acks) /\
    Forall (fun e : Z * Z =>
      let '(s, t) := e in
      exists k T, (k < length acks)%nat /\ (p_base p + Z.of_nat k) mod 65536 = s /\
        Z.abs (T - t * 1000) <= 125000 /\
        nth k acks zero_ack = match hget H 0 s with Some a => set_arr a T | None => zero_ack end) tr.
Proof. exact roundtrip_twcc_end_to_end. Qed.
Print Assumptions C09_roundtrip_twcc_end_to_end.

(* TWCC, recorder level: EVERY packet of EVERY BuildFeedbackPacket of EVERY Record/Build
   history of the C05 recorder model is such a feedback; tr is the non-empty list of
   (sequence number, arrival time) it was fed, t0 its first arrival time. *)
Theorem C09_roundtrip_twcc_recorder : forall sender ops ps p h,
  In ps (IV.Model.TwccRecorder.rec_run sender IV.Model.TwccRecorder.rec_init ops) -> In p ps ->
  exists t0 tr,
    tr <> [] /\ snd (hd (0, 0) tr) = t0 /\
    (t0 < 16777216 * 64000 ->
     exists acks,
       on_twcc h (p_base p) (p_ref p) (map chunk_of_wire (p_chunks p)) (map snd (p_deltas p)) = Some acks /\
       Forall (fun e : Z * Z =>
         let '(s, t) := e in
         exists k T, (k < length acks)%nat /\ (p_base p + Z.of_nat k) mod 65536 = s /\
           Z.abs (T - t * 1000) <= 125000 /\
           nth k acks zero_ack = match hget h 0 s with Some a => set_arr a T | None => zero_ack end) tr).
Proof. exact roundtrip_twcc_recorder. Qed.
Print Assumptions C09_roundtrip_twcc_recorder.

(* ... and the arrivals tr a packet of the i-th build round-trips are received entries
   (sequence number mod 2^16, arrival time >= 0) of the recorder's arrival map in the state
   in which that build ran ([rec_states]); which entries a packet must contain is C05's
   C05_build_packet_partial *)
Theorem C09_roundtrip_twcc_recorder_map : forall sender ops i p h,
  (i < length (IV.Model.TwccRecorder.rec_run sender IV.Model.TwccRecorder.rec_init ops))%nat ->
  In p (nth i (IV.Model.TwccRecorder.rec_run sender IV.Model.TwccRecorder.rec_init ops) []) ->
  let m := IV.Model.TwccRecorder.r_map (nth i (rec_states sender IV.Model.TwccRecorder.rec_init ops) IV.Model.TwccRecorder.rec_init) in
  exists t0 tr,
    tr <> [] /\ snd (hd (0, 0) tr) = t0 /\ Forall (map_arrival m) tr /\
    (t0 < 16777216 * 64000 ->
     exists acks,
       on_twcc h (p_base p) (p_ref p) (map chunk_of_wire (p_chunks p)) (map snd (p_deltas p)) = Some acks /\
       Forall (fun e : Z * Z =>
         let '(s, t) := e in
         exists k T, (k < length acks)%nat /\ (p_base p + Z.of_nat k) mod 65536 = s /\
           Z.abs (T - t * 1000) <= 125000 /\
           nth k acks zero_ack = match hget h 0 s with Some a => set_arr a T | None => zero_ack end) tr).
Proof. exact roundtrip_twcc_recorder_map. Qed.
Print Assumptions C09_roundtrip_twcc_recorder_map.

(* TWCC feedback of the C05 builder decoded by pkg/rtpfb's convertTWCC: exactly one
   acknowledgement per status below the count (the padding of the last chunk yields none),
   and every recorded arrival (s, t) comes back as (s, arrived, T, no ECN), |T - t| <= 125 us.
   (syms = the statuses the feedback was fed; fewer than 2^16 of them, as in C05.) *)
Theorem C09_roundtrip_twcc_rtpfb : forall b t0 tr f sender media fbc,
  0 <= b < 65536 -> 0 <= Z.quot t0 64000 < 16777216 ->
  Forall (fun e : Z * Z => 0 <= fst e < 65536) tr ->
  fb_adds (fb_new b t0) tr = Some f ->
  let p := fb_get_rtcp sender media fbc f in
  exists syms, fb_inv f syms /\
    (Z.of_nat (length syms) < 65536 ->
     let facks := convert_twcc (p_base p) (p_count p) (p_ref p) (map chunk_of_wire (p_chunks p)) (map snd (p_deltas p)) in
     length facks = length syms /\
     Forall (fun e : Z * Z =>
       let '(s, t) := e in
       exists k T, (k < length facks)%nat /\ nth k facks (0, false, 0, 0) = (s, true, T, 0) /\
                   Z.abs (T - t * 1000) <= 125000) tr).
Proof. exact IV.Proofs.FbRoundTripRtpfb.roundtrip_twcc_rtpfb. Qed.
Print Assumptions C09_roundtrip_twcc_rtpfb.

(* RFC 8888 (C08 models).  [stream_ack h rt ref ssrc log i] = what must come back for
   number i of a stream: nothing if (ssrc, i mod 2^16) is not in the send history, the send
   record unchanged if i is not in the log, else the record with the log's ECN and arrival
   rt - (floor(1024 (ref - ts)) / 1024 s).  For EVERY stream-log state, reference time and
   budget, decoding the block metricsAfter emits gives exactly that for every number of the
   block's range, in order (exact float kernel, as in C08). *)
Theorem C09_roundtrip_rfc8888_block : forall atok, IV.Proofs.Rfc8888Proofs.exact_kernel atok ->
  forall h rt s ref budget,
  on_ccfb h rt [snd (IV.Model.StreamLog.metrics_after atok s ref budget)] =
  match IV.Model.StreamLog.sl_log s with
  | [] => []
  | _ => flat_map (IV.Proofs.FbRoundTrip8888.stream_ack h rt ref (IV.Model.StreamLog.sl_ssrc s)
                     (IV.Proofs.StreamLogProofs.trunc_log s budget))
                  (zrange (IV.Proofs.StreamLogProofs.trunc_next s budget) (IV.Proofs.StreamLogProofs.range_cnt s budget))
  end.
Proof. exact IV.Proofs.FbRoundTrip8888.roundtrip_rfc8888_block. Qed.
Print Assumptions C09_roundtrip_rfc8888_block.

(* ... and for the whole report of Recorder.BuildReport in EVERY recorder state *)
Theorem C09_roundtrip_rfc8888 : forall atok, IV.Proofs.Rfc8888Proofs.exact_kernel atok ->
  forall h rt now maxSize r r' rep,
  IV.Model.Rfc8888Recorder.rec_build atok r now maxSize = (r', rep) ->
  let B := IV.Model.Rfc8888Recorder.per_stream_budget maxSize (Z.of_nat (length r)) in
  on_ccfb h rt rep =
  flat_map (fun ks : Z * IV.Model.StreamLog.slog =>
    let s := snd ks in
    match IV.Model.StreamLog.sl_log s with
    | [] => []
    | _ => flat_map (IV.Proofs.FbRoundTrip8888.stream_ack h rt now (IV.Model.StreamLog.sl_ssrc s)
                       (IV.Proofs.StreamLogProofs.trunc_log s B))
                    (zrange (IV.Proofs.StreamLogProofs.trunc_next s B) (IV.Proofs.StreamLogProofs.range_cnt s B))
    end) r.
Proof. exact IV.Proofs.FbRoundTrip8888.roundtrip_rfc8888_build. Qed.
Print Assumptions C09_roundtrip_rfc8888.

(* the same block decoded by pkg/rtpfb's convertCCFB: one acknowledgement per number of the
   block's range, (number mod 2^16, arrived, rt - floor-to-1/1024 s of (ref - ts), ECN) for
   the numbers in the log - the zero time when the offset is 0x1FFF - and "not arrived" for the
   others ([stream_fack]) *)
Theorem C09_roundtrip_rfc8888_rtpfb_block : forall atok, IV.Proofs.Rfc8888Proofs.exact_kernel atok ->
  forall rt s ref budget,
  IV.Model.StreamLog.sl_log s <> [] ->
  let b := snd (IV.Model.StreamLog.metrics_after atok s ref budget) in
  fst (fst b) = IV.Model.StreamLog.sl_ssrc s /\
  convert_mblocks rt (snd (fst b)) (snd b) =
  map (IV.Proofs.FbRoundTrip8888.stream_fack rt ref (IV.Proofs.StreamLogProofs.trunc_log s budget))
      (zrange (IV.Proofs.StreamLogProofs.trunc_next s budget) (IV.Proofs.StreamLogProofs.range_cnt s budget)).
Proof. exact IV.Proofs.FbRoundTrip8888.roundtrip_rfc8888_rtpfb_block. Qed.
Print Assumptions C09_roundtrip_rfc8888_rtpfb_block.

(* ... and the whole report of BuildReport in EVERY recorder state reachable by AddPacket /
   BuildReport / metricsAfter calls, through convertCCFB: one entry per stream (the streams'
   SSRCs are distinct, so no block is dropped), each with the acknowledgements above *)
Theorem C09_roundtrip_rfc8888_rtpfb : forall atok, IV.Proofs.Rfc8888Proofs.exact_kernel atok ->
  forall rt ops now maxSize r' rep,
  let r := IV.Proofs.FbRoundTrip8888.rec_final atok [] ops in
  IV.Model.Rfc8888Recorder.rec_build atok r now maxSize = (r', rep) ->
  convert_ccfb rt rep =
  map (fun ks : Z * IV.Model.StreamLog.slog =>
         IV.Proofs.FbRoundTrip8888.stream_facks rt now
           (IV.Model.Rfc8888Recorder.per_stream_budget maxSize (Z.of_nat (length r))) (snd ks)) r.
Proof. exact IV.Proofs.FbRoundTrip8888.roundtrip_rfc8888_rtpfb_build. Qed.
Print Assumptions C09_roundtrip_rfc8888_rtpfb.

(* the time: read back against the reference it was built with, the arrival is in
   [ts, ts + 1/1024 s] for every arrival inside the representable offset range *)
Theorem C09_rfc8888_time_within : forall ref ts,
  ts <= ref -> 1024 * (ref - ts) <= 8189 * 1000000000 ->
  0 <= (ref - ato_ns (IV.Spec.Rfc8888Spec.ato_spec ref ts)) - ts <= 976563.
Proof. exact IV.Proofs.FbRoundTrip8888.rfc8888_time_within. Qed.
Print Assumptions C09_rfc8888_time_within.

Example C09_roundtrip_rfc8888_nonvacuous :
  let s := IV.Model.StreamLog.sl_add
             (IV.Model.StreamLog.sl_add (IV.Model.StreamLog.new_slog 9) 1000000 100 1)
             3000000 102 0 in
  on_ccfb [(102, 9, 1200, 7, 0, 0); (100, 9, 1100, 5, 0, 0)] 5000000
          [snd (IV.Model.StreamLog.metrics_after IV.Proofs.Rfc8888Proofs.exact_atok s 5000000 10)]
  = [(100, 9, 1100, 5, 1093750, 1); (102, 9, 1200, 7, 3046875, 0)].
Proof. vm_compute. reflexivity. Qed.
Print Assumptions C09_roundtrip_rfc8888_nonvacuous.

(* ---------------- the run-time oracle's own decode and history ---------------- *)
From IV Require Check.C09Check Proofs.C09OracleLink.

(* Check/C09Check.v [arrivals] (what cc_spec_failures / fb_spec_failures decode with) *)
Theorem C09_oracle_arrivals_iff : forall ref24 syms ds k t,
  (k < length syms)%nat -> (ndeltas (firstn (S k) syms) <= length ds)%nat ->
  (nth k (IV.Check.C09Check.arrivals (ref24 * 64000000) syms ds) None = Some t <->
   is_delta_sym (nth k syms 0) = true /\ t = arrival_at ref24 syms ds k).
Proof. exact IV.Proofs.C09OracleLink.oracle_arrivals_iff. Qed.
Print Assumptions C09_oracle_arrivals_iff.

(* the history cc_spec_failures rebuilds from the sends ([ohist] of the send log) is the
   adapter model's history after the same operations *)
Theorem C09_oracle_history_is_model : forall reftime ops,
  IV.Check.C09Check.ohist (send_log ops []) = final reftime [] ops.
Proof. exact IV.Proofs.C09OracleLink.oracle_history_is_model. Qed.
Print Assumptions C09_oracle_history_is_model.

(* The rtpfb run-time oracle (fb_spec_failures = fb_case_codes per case: own send log, own
   decode, own cursor; codes 31-36, 90, 91) returns NO code for a case EXACTLY when the
   feedback of the case is well formed - TWCC packets with 16-bit base and at least as many
   deltas as delta symbols below the count (rtcp.Unmarshal's guarantee), CCFB packets with
   one report block per SSRC (the generator's rule; code 90 otherwise) - AND the
   implementation's reports equal the Prop-level specification [rspec_run] that the model is
   proved equal to (C09_rtpfb_interceptor_is_spec). *)
From IV Require Proofs.C09OracleRtpfb.
Theorem C09_fb_oracle_iff : forall c : IV.Check.C09Check.fb_case,
  let ops := flat_map IV.Check.C09Check.rexpand (fst c) in
  let outs := map (fun l => IV.Check.C09Check.unflat_rep l (length l)) (snd c) in
  IV.Check.C09Check.fb_case_codes c = [] <->
  Forall IV.Proofs.C09OracleRtpfb.wf_rop ops /\
  outs = IV.Check.C09Check.read_outs ops (rspec_run IV.Check.C09Check.reft32 [] ops).
Proof. exact IV.Proofs.C09OracleRtpfb.fb_oracle_iff. Qed.
Print Assumptions C09_fb_oracle_iff.

Example C09_fb_oracle_iff_nonvacuous :
  Forall IV.Proofs.C09OracleRtpfb.wf_rop
    [RSend true (Some 10) 7 100 1200 5; RRead 9 [FTw 10 1 1 [SV [1; 0; 0; 0; 0; 0; 0]] [1000]; FCf 3 [(7, 100, [(true, 0, 5)])]]].
Proof.
  constructor; [exact I|]. constructor; [|constructor]. cbn [IV.Proofs.C09OracleRtpfb.wf_rop].
  constructor; [|constructor; [|constructor]].
  - split; [lia|]. vm_compute. constructor.
  - cbn. constructor; [intros []|constructor].
Qed.
Print Assumptions C09_fb_oracle_iff_nonvacuous.

(* Soundness of the cc run-time oracle (cc_spec_failures = cc_case_codes per case).  If it
   reports nothing but the pinned known findings 12 (F12), 13 (F13), 15, 16 for a case, then
   every TWCC feedback of the case which the implementation answered with at least one entry
   per status symbol (ops1 = the operations before it, r = the implementation's answer) was
   answered without error, with exactly one entry per symbol, and every entry below
   PacketStatusCount is position semantics (decode_at) applied to the 250 most recently sent
   distinct packets at that point of the history (= the model's history,
   C09_history_is_recent_250). *)
From IV Require Proofs.C09OracleCc.
Theorem C09_cc_oracle_sound_twcc : forall (c : IV.Check.C09Check.cc_case) ops1 base count ref24 cs ds ops2,
  let '(cops, errs, outs0) := c in
  let outs := map IV.Check.C09Check.unflat_out outs0 in
  flat_map IV.Check.C09Check.expand cops = ops1 ++ FbTwcc base count ref24 cs ds :: ops2 ->
  Forall IV.Proofs.C09OracleCc.known_case_code (IV.Check.C09Check.cc_case_codes c) ->
  0 <= base < 65536 ->
  (ndeltas (firstn (Z.to_nat count) (symbols cs)) <= length ds)%nat ->
  (IV.Proofs.C09OracleCc.nfb ops1 < length outs)%nat ->
  let r := nth (IV.Proofs.C09OracleCc.nfb ops1) outs (0, []) in
  (length (symbols cs) <= length (snd r))%nat ->
  fst r = 0 /\ length (snd r) = length (symbols cs) /\
  forall k, (k < length (symbols cs))%nat -> Z.of_nat k < count ->
    nth k (snd r) zero_ack =
    decode_at (hget (recent 250 (send_log ops1 [])) 0 ((base + Z.of_nat k) mod 65536)) ref24 (symbols cs) ds k.
Proof. exact IV.Proofs.C09OracleCc.cc_case_sound_twcc. Qed.
Print Assumptions C09_cc_oracle_sound_twcc.

(* ... and every RFC 8888 feedback of such a case was answered with exactly the per-block,
   per-metric-block acknowledgements of C09_rfc8888 for that history *)
Theorem C09_cc_oracle_sound_rfc8888 : forall (c : IV.Check.C09Check.cc_case) ops1 ts bs ops2,
  let '(cops, errs, outs0) := c in
  let outs := map IV.Check.C09Check.unflat_out outs0 in
  flat_map IV.Check.C09Check.expand cops = ops1 ++ FbCcfb ts bs :: ops2 ->
  Forall IV.Proofs.C09OracleCc.known_case_code (IV.Check.C09Check.cc_case_codes c) ->
  Forall (fun b : rblock => 0 <= snd (fst b) < 65536) bs ->
  (IV.Proofs.C09OracleCc.nfb ops1 < length outs)%nat ->
  let r := nth (IV.Proofs.C09OracleCc.nfb ops1) outs (0, []) in
  fst r = 0 /\
  snd r = flat_map (fun b : rblock => let '(ssrc, begin, mbs) := b in
                      ccfb_spec (recent 250 (send_log ops1 [])) (IV.Check.C09Check.reft ts) ssrc begin 0 mbs) bs.
Proof. exact IV.Proofs.C09OracleCc.cc_case_sound_ccfb. Qed.
Print Assumptions C09_cc_oracle_sound_rfc8888.

(* No false alarms: on the MODEL's own outputs the cc oracle reports nothing but the pinned
   known findings (12 F12, 13/14 F13, 15, 16), for every well-formed operation list (positive
   packet sizes; TWCC feedback with 16-bit base, non-negative run lengths and the delta count
   rtcp.Unmarshal produces, [tlcc_wfb]).  Together with the differential check (implementation
   = model on every case) a violation reported by cc_spec_failures is a deviation of the
   model-conforming implementation from the specification, never an artefact of the oracle. *)
From IV Require Proofs.C09OracleCcComplete.
Theorem C09_cc_oracle_no_false_alarm : forall ops,
  Forall IV.Proofs.C09OracleCcComplete.wf_cc_op ops ->
  Forall IV.Proofs.C09OracleCcComplete.known5
    (IV.Check.C09Check.nodup_nat
       (IV.Check.C09Check.cc_walk [] ops
          (IV.Check.C09Check.fb_outs ops (run IV.Check.C09Check.reft [] ops)))).
Proof. exact IV.Proofs.C09OracleCcComplete.cc_model_case_known. Qed.
Print Assumptions C09_cc_oracle_no_false_alarm.

Example C09_cc_oracle_nonvacuous :
  let ops := [Sent 5 (Some 10) 0 0 12 1000 5; Sent 5 (Some 11) 0 1 12 1001 6;
              FbTwcc 10 2 1 [SV [1; 1; 0; 0; 0; 0; 0]] [1000; 5000]; Sent 0 None 9 100 12 900 7;
              FbCcfb 3 [(9, 100, [(true, 1, 5)])]] in
  Forall IV.Proofs.C09OracleCcComplete.wf_cc_op ops /\
  IV.Check.C09Check.nodup_nat
    (IV.Check.C09Check.cc_walk [] ops (IV.Check.C09Check.fb_outs ops (run IV.Check.C09Check.reft [] ops)))
  = [13%nat].
Proof.
  cbv zeta. split; [|vm_compute; reflexivity].
  repeat (apply Forall_cons || apply Forall_nil); cbn [IV.Proofs.C09OracleCcComplete.wf_cc_op]; try lia; try exact I.
  split; [lia|]. split; [repeat constructor|vm_compute; reflexivity].
Qed.
Print Assumptions C09_cc_oracle_nonvacuous.
