(* C19, deepening round.  Statements only; proofs are in
   Proofs/StatsLifecycleProofs.v and Proofs/StatsMore.v.

   PART 1 - the interceptor with its life cycle (Model/StatsLifecycle.v:
   BindLocal/RemoteStream, the Start goroutine of every recorder as an event of
   its own, UnbindLocal/RemoteStream, Close, RTP through the reader / writer
   returned by a particular bind - also a stale one -, RTCP fanned out to the
   recorders of the map).  [lget s h] is Interceptor.Get(s) after history h.
   [seen_by s h] (Spec/StatsLifeSpec.v) is a scan of h that looks only at the
   events concerning s: None if s has no recorder in the map, otherwise the
   clock rate of the LATEST bind that created a recorder for s and the traffic
   that recorder was handed while it was running.  All theorems of
   Properties/C19.v apply to that event list.

   PART 2 - inbound interarrival jitter.  OUTSIDE THE PROPERTY TEXT of C19 (the
   property's jitter is the REMOTE jitter taken from the most recent matching
   report, Properties/C19.v): what follows are OBSERVATIONS about the code, not
   findings of this check, and no oracle code looks at them.  The recorder's
   value is the kernel folded over an explicit sequence of |d| inputs; that
   sequence is not the one of RFC 3550 6.4.1 / A.8 (two refutations with
   witnesses); the RFC reference used for the comparison is itself proved
   insensitive to the timestamp origin.

   PART 3 - remote-outbound figures: pion's reading ("sent by s OR carrying a
   report block about s") made explicit; equal to the strict reading ("sent by
   s") exactly when no foreign SR reports on s; the foreign-SR case stated. *)
From IV Require Import Base.Word Model.Unwrapper Model.Ntp Model.StatsRecorder Model.StatsLifecycle
  Spec.StatsSpec Spec.StatsLifeSpec Spec.StatsMoreSpec
  Proofs.StatsProofs Proofs.StatsLifecycleProofs Proofs.StatsMore Check.C19bCheck.

(* ======================= PART 1: life cycle ======================= *)

(* Get(ssrc) after ANY history of binds, starts, unbinds, Close and traffic is the
   single-recorder model run - with the clock rate of the latest creating bind -
   on the traffic seen since that bind; nil when the stream has no recorder *)
Theorem C19b_get_is_recorder_since_latest_bind : forall F (fzero : F) ku kj krj kf kd kn s h,
  lget fzero ku kj krj kf kd kn s h =
  match seen_by s h with
  | Some (rate, evs) => Some (run fzero ku kj krj kf kd kn s rate evs)
  | None => None
  end.
Proof. intros. exact (lget_spec fzero ku kj krj kf kd kn s h). Qed.
Print Assumptions C19b_get_is_recorder_since_latest_bind.

(* a stream that was never bound: nil, whatever else happened *)
Theorem C19b_never_bound_is_nil : forall F (fzero : F) ku kj krj kf kd kn s h,
  existsb (is_lbind s) h = false -> lget fzero ku kj krj kf kd kn s h = None.
Proof. intros. rewrite lget_spec, seen_never_bound by assumption. reflexivity. Qed.
Print Assumptions C19b_never_bound_is_nil.

(* a stream that was unbound and not bound again: nil *)
Theorem C19b_unbound_is_nil : forall F (fzero : F) ku kj krj kf kd kn s h1 h2,
  existsb (is_lbind s) h2 = false -> lget fzero ku kj krj kf kd kn s (h1 ++ LUnbind s :: h2) = None.
Proof. intros. rewrite lget_spec, seen_unbound_tail by assumption. reflexivity. Qed.
Print Assumptions C19b_unbound_is_nil.

(* fresh after rebind: once s was unbound, NOTHING that happened before the
   Unbind (traffic, rates, earlier recorders of s) shows in any later Get(s);
   only the number of binds (handle numbering) and whether Close had begun carry over *)
Theorem C19b_rebind_is_fresh : forall F (fzero : F) ku kj krj kf kd kn s h1 h1' h2,
  nbinds h1 = nbinds h1' -> closed_in h1 = closed_in h1' ->
  lget fzero ku kj krj kf kd kn s (h1 ++ LUnbind s :: h2) = lget fzero ku kj krj kf kd kn s (h1' ++ LUnbind s :: h2).
Proof. intros. rewrite !lget_spec, (seen_after_unbind s h1 h1' h2) by assumption. reflexivity. Qed.
Print Assumptions C19b_rebind_is_fresh.

(* binding a stream that has no recorder (never bound, or unbound) before Close:
   all-zero statistics, the clock rate of THIS bind *)
Theorem C19b_fresh_bind_starts_empty : forall F (fzero : F) ku kj krj kf kd kn s h rate,
  seen_by s h = None -> closed_in h = false ->
  seen_by s (h ++ [LBind s rate]) = Some (rate, []) /\
  lget fzero ku kj krj kf kd kn s (h ++ [LBind s rate]) = Some (st0 fzero).
Proof.
  intros. pose proof (seen_fresh_bind s h rate H H0) as E. split; [exact E|].
  rewrite lget_spec, E. reflexivity.
Qed.
Print Assumptions C19b_fresh_bind_starts_empty.

(* ... after Close has begun no recorder is registered: still nil *)
Theorem C19b_bind_after_close_is_nil : forall F (fzero : F) ku kj krj kf kd kn s h rate,
  seen_by s h = None -> closed_in h = true ->
  lget fzero ku kj krj kf kd kn s (h ++ [LBind s rate]) = None.
Proof. intros. rewrite lget_spec, (seen_bind_after_close s h rate) by assumption. reflexivity. Qed.
Print Assumptions C19b_bind_after_close_is_nil.

(* a further bind of a stream that has a recorder (the other direction, or again)
   changes nothing: same recorder, first clock rate, same statistics *)
Theorem C19b_second_bind_keeps_recorder : forall F (fzero : F) ku kj krj kf kd kn s h rate,
  seen_by s h <> None ->
  lget fzero ku kj krj kf kd kn s (h ++ [LBind s rate]) = lget fzero ku kj krj kf kd kn s h.
Proof.
  intros. rewrite !lget_spec. destruct (seen_by s h) as [x|] eqn:E; [|congruence].
  rewrite (seen_rebind_keeps s h rate x E). reflexivity.
Qed.
Print Assumptions C19b_second_bind_keeps_recorder.

(* the window before the Start goroutine has run: nothing is recorded *)
Theorem C19b_nothing_recorded_before_start : forall F (fzero : F) ku kj krj kf kd kn s h r,
  v_cur (view_of s h) = Some r -> vr_pending r = true ->
  lget fzero ku kj krj kf kd kn s h = Some (st0 fzero).
Proof.
  intros. destruct (pending_sees_nothing s h r H H0) as [_ E].
  rewrite lget_spec. unfold seen_by. rewrite H, E. reflexivity.
Qed.
Print Assumptions C19b_nothing_recorded_before_start.

(* non-vacuity, one history with all of it: RTCP before the start goroutine ran
   is dropped; RTP of the first recorder; Unbind; RTP through the now stale
   handle 0; rebind with another clock rate (handle 2, recorder 2); RTP through
   the stale handle again and through the new one: Get(7) is the recorder at
   48000 Hz that saw only the last packet; Get(8) (never bound) is nil *)
Example C19b_rebind_example :
  let p := fun ts seq => InRTP ts 7 seq 0 12 100 in
  let h := [LBind 7 90000; LRtcp (OutRTCP 1 [PPli 1 7]); LStart 0; LRtp 0 (p 10 1); LBind 9 8000;
            LUnbind 7; LRtp 0 (p 20 2); LBind 7 48000; LStart 2; LRtp 0 (p 30 3); LRtp 2 (p 40 4)] in
  seen_by 7 h = Some (48000, [p 40 4]) /\ seen_by 8 h = None /\
  seen_by 7 (firstn 5 h) = Some (90000, [p 10 1]) /\ seen_by 7 (firstn 7 h) = None /\
  seen_by 9 h = Some (8000, []).
Proof. cbv zeta. repeat split; reflexivity. Qed.
Print Assumptions C19b_rebind_example.

(* Stop is final (commit "stats recorder stays stopped when Start runs after Stop", found in this
   round): once Close has stopped the recorders, NOTHING that follows changes what Get(s) returns - no
   Start goroutine that is scheduled late (Close's wg.Wait lets them all run), no traffic, no second
   Close - until the stream is unbound *)
Theorem C19b_frozen_after_close : forall F (fzero : F) ku kj krj kf kd kn s h1 h2,
  existsb (is_lunbind s) h2 = false ->
  lget fzero ku kj krj kf kd kn s (h1 ++ LClose :: h2) = lget fzero ku kj krj kf kd kn s (h1 ++ [LClose]).
Proof. intros. rewrite !lget_spec, (seen_frozen_after_close s h1 h2) by assumption. reflexivity. Qed.
Print Assumptions C19b_frozen_after_close.

(* a Start goroutine that runs after its recorder was stopped records nothing, whether Close or Unbind
   stopped it; and the late Start of a released recorder does not start the stream's NEW recorder
   (recorder 1 below still waits for its own Start) *)
Example C19b_start_after_stop_records_nothing :
  let e := OutRTCP 5 [PPli 1 7] in
  seen_by 7 [LBind 7 90000; LClose; LStart 0; LRtcp e] = Some (90000, []) /\
  seen_by 7 [LBind 7 90000; LStart 0; LClose; LRtcp e] = Some (90000, []) /\
  seen_by 7 [LBind 7 90000; LUnbind 7; LStart 0; LRtcp e] = None /\
  seen_by 7 [LBind 7 90000; LUnbind 7; LBind 7 48000; LStart 0; LRtcp e] = Some (48000, []) /\
  seen_by 7 [LBind 7 90000; LUnbind 7; LBind 7 48000; LStart 0; LStart 1; LRtcp e] = Some (48000, [e]).
Proof. cbv zeta. repeat split; reflexivity. Qed.
Print Assumptions C19b_start_after_stop_records_nothing.

(* the views the life-cycle oracle (Check/C19bCheck.v, life_spec_failures) walks are these scans *)
Theorem C19b_oracle_walks_the_scans : forall qs h,
  fold_left (fun vs ev => map (fun sv => vstep (fst sv) (snd sv) ev) (combine qs vs)) h (map (fun _ => view0) qs) =
  map (fun s => view_of s h) qs.
Proof.
  intros. rewrite oracle_views by (rewrite map_length; reflexivity).
  unfold view_of. induction qs as [|q qs IH]; simpl; [reflexivity|]. f_equal. exact IH.
Qed.
Print Assumptions C19b_oracle_walks_the_scans.

(* ======================= PART 2: inbound jitter (observations outside the property text) ======================= *)

(* InboundRTPStreamStats.Jitter depends only on (arrival time, RTP timestamp) of
   the packets carrying this SSRC, in arrival order, and is the jitter kernel
   folded over the explicit |d| sequence [pion_ds] (Spec/StatsMoreSpec.v) *)
Theorem C19b_inbound_jitter_is_pion_recurrence : forall F (fzero : F) ku kj krj kf kd kn ssrc rate evs,
  i_jit (sa (run fzero ku kj krj kf kd kn ssrc rate evs)) =
  fold_left (kj rate) (pion_ds ku rate (jit_pks ssrc evs)) fzero.
Proof. intros. exact (thm_jitter_recurrence fzero ku kj krj kf kd kn ssrc rate evs). Qed.
Print Assumptions C19b_inbound_jitter_is_pion_recurrence.

(* OBSERVATION (outside the property text, not a finding of C19). REFUTED: that sequence is not RFC 3550's |D(i-1,i)|.  The recorder re-bases
   its "arrival" on the previous packet's RTP timestamp, so its transit already
   IS D(i-1,i) and the difference of two transits counts every delay change
   twice.  90 kHz, packets every 20 ms, the third one 5 ms late and the fourth
   as late as the third: RFC |D| = 0, 450, 0; the recorder feeds 0, 450, 450. *)
Theorem C19b_inbound_jitter_rfc3550_refuted :
  let pks := [(0, 0); (20000000, 1800); (45000000, 3600); (65000000, 5400)] in
  rfc_ds ku_exact 90000 pks = [0; 450; 0] /\ pion_ds ku_exact 90000 pks = [0; 450; 450].
Proof. cbv zeta. split; vm_compute; reflexivity. Qed.
Print Assumptions C19b_inbound_jitter_rfc3550_refuted.

(* OBSERVATION (outside the property text, not a finding of C19). REFUTED: wrap safety (the analogue of C06_jitter_shift_invariant).  transit is
   int(arrival) - int(timestamp) on 64-bit ints although arrival is a wrapped
   uint32: when arrival wraps and the timestamp has not, |d| is about 2^32 units
   (13 h at 90 kHz).  The same two packets with every timestamp moved by 1000: 1505. *)
Theorem C19b_inbound_jitter_shift_invariant_refuted :
  let pks := [(0, 4294967000); (20000000, 4294967295)] in
  pion_ds ku_exact 90000 pks = [4294965791] /\
  pion_ds ku_exact 90000 (map (shift_pk 1000) pks) = [1505] /\
  rfc_ds ku_exact 90000 pks = [1505].
Proof. cbv zeta. repeat split; vm_compute; reflexivity. Qed.
Print Assumptions C19b_inbound_jitter_shift_invariant_refuted.

(* the reference the two refutations compare with is sound in this respect:
   RFC 3550's sequence does not depend on the origin of the RTP timestamps, for
   every history and every elapsed-units kernel *)
Theorem C19b_rfc3550_reference_shift_invariant : forall ku rate c pks,
  rfc_ds ku rate (map (shift_pk c) pks) = rfc_ds ku rate pks.
Proof. exact rfc_ds_shift_invariant. Qed.
Print Assumptions C19b_rfc3550_reference_shift_invariant.

(* ======================= PART 3: remote-outbound figures ======================= *)

(* pion's reading, explicit: the sender reports that count for stream s are those
   SENT BY s OR CARRYING A REPORT BLOCK ABOUT s; this is the list the recount of
   C19_remote_outbound_from_latest_sr uses *)
Theorem C19b_destination_ssrc_reading : forall s evs, srs_in s evs = srs_pion s evs.
Proof. exact srs_in_is_pion. Qed.
Print Assumptions C19b_destination_ssrc_reading.

Theorem C19b_remote_outbound_pion_reading : forall F (fzero : F) ku kj krj kf kd kn ssrc rate evs,
  let d := sd (run fzero ku kj krj kf kd kn ssrc rate evs) in
  ro_reports d = zlen (srs_pion ssrc evs) /\
  match last_opt (srs_pion ssrc evs) with
  | Some (PSR _ ntp _ pc oc _) => ro_sent d = pc /\ ro_bytes d = oc /\ ro_ts d = Some (to_time kn ntp)
  | _ => ro_sent d = 0 /\ ro_bytes d = 0 /\ ro_ts d = None
  end.
Proof. intros. exact (thm_remote_sr_pion fzero ku kj krj kf kd kn ssrc rate evs). Qed.
Print Assumptions C19b_remote_outbound_pion_reading.

(* the case of an SR that MERELY CARRIES a report block about the stream: the
   stream's PacketsSent / BytesSent / RemoteTimeStamp become the counters of the
   OTHER source x (wherever the SR stands in its compound, unless a later SR of
   the compound counts too) *)
Theorem C19b_foreign_sr_overwrites_remote_outbound :
  forall F (fzero : F) ku kj krj kf kd kn ssrc rate evs ts x ntp rt pc oc reps before after,
  x <> ssrc -> existsb (fun r => rep_ssrc r =? ssrc) reps = true ->
  (forall p, In p after -> sr_pion ssrc p = false) ->
  let d := sd (run fzero ku kj krj kf kd kn ssrc rate (evs ++ [InRTCP ts (before ++ PSR x ntp rt pc oc reps :: after)])) in
  ro_sent d = pc /\ ro_bytes d = oc /\ ro_ts d = Some (to_time kn ntp) /\
  sr_sent_by ssrc (PSR x ntp rt pc oc reps) = false.
Proof.
  intros F fzero ku kj krj kf kd kn ssrc rate evs ts x ntp rt pc oc reps before after Hx Hr Ha.
  exact (thm_foreign_sr_overwrites fzero ku kj krj kf kd kn ssrc rate evs ts x ntp rt pc oc reps before after Hx Hr Ha).
Qed.
Print Assumptions C19b_foreign_sr_overwrites_remote_outbound.

(* the strict reading (WebRTC-stats: the SR sent by s) holds exactly on the
   histories where no other source's SR reports on s - e.g. a stream we only receive *)
Theorem C19b_remote_outbound_strict_reading_partial : forall F (fzero : F) ku kj krj kf kd kn ssrc rate evs,
  no_foreign_sr_about ssrc evs ->
  let d := sd (run fzero ku kj krj kf kd kn ssrc rate evs) in
  ro_reports d = zlen (srs_strict ssrc evs) /\
  match last_opt (srs_strict ssrc evs) with
  | Some (PSR _ ntp _ pc oc _) => ro_sent d = pc /\ ro_bytes d = oc /\ ro_ts d = Some (to_time kn ntp)
  | _ => ro_sent d = 0 /\ ro_bytes d = 0 /\ ro_ts d = None
  end.
Proof. intros F fzero ku kj krj kf kd kn ssrc rate evs H. exact (thm_remote_sr_strict fzero ku kj krj kf kd kn ssrc rate evs H). Qed.
Print Assumptions C19b_remote_outbound_strict_reading_partial.

(* ... and without that hypothesis the strict reading is refuted: stream 7 sent
   an SR (10 packets), then source 9 sends an SR (555 packets) with a report block about 7 *)
Theorem C19b_remote_outbound_strict_reading_refuted :
  let evs := [InRTCP 1 [PSR 7 0 0 10 1000 []]; InRTCP 2 [PSR 9 0 0 555 77777 [Rep 7 0 0 0 0 0 0]]] in
  last_opt (srs_strict 7 evs) = Some (PSR 7 0 0 10 1000 []) /\
  ro_sent (sd (run tt (fun _ _ => 0) (fun _ _ _ => tt) (fun _ _ => tt) (fun _ => tt) (fun _ => 0) (fun _ => 0) 7 90000 evs)) = 555.
Proof. cbv zeta. split; reflexivity. Qed.
Print Assumptions C19b_remote_outbound_strict_reading_refuted.
