(* C03 (deepening round) - whole-history theorems for the generator model and the theorem for
   receiveLog.get.  Statements only; proofs are in Proofs/NackGenMore.v and
   Proofs/ReceiveLogMore.v; the specification is Spec/NackGenSpec.v (+ Spec/NackSpec.v).

   Vocabulary (Spec/NackGenSpec.v):
     cfg_ok c            size in {64..32768 powers of two}, skipLastN and maxNacksPerPacket uint16
     ops_u16 ops         every delivered sequence number is a uint16
     own_arrivals s None ops   one entry per tick: the numbers the reader of s delivered since
                         BindRemoteStream (None while s is not bound)
     own_missing c s ops the recount's missing list (Spec/NackSpec.v) of those arrivals, per tick
     spec_tick           the maxNacksPerPacket rule in closed form: send the missing numbers
                         requested fewer than max times so far, count them, forget the counts of
                         numbers that are no longer missing when a packet is sent
     spec_stream c s ss_init ops   per tick, spec_tick applied to own_missing, over the history
   run / out_for are the generator model (Model/NackGen.v) and its projection to one SSRC. *)
From IV Require Import Base.Word Model.ReceiveLog Model.NackGen Spec.NackSpec Spec.NackGenSpec
  Proofs.ReceiveLogProofs Proofs.NackGenProofs Proofs.NackGenMore Proofs.ReceiveLogMore
  Proofs.NackStreamFast Check.C03StreamCheck.

(* FULL (generator model, whole histories): for every configuration, every SSRC and every
   operation list (binds with and without nack, arrivals and read errors on any SSRC, ticks
   anywhere, unbinds, re-binds), the NACKs the generator emits for s at the successive ticks are
   exactly what the specification computes from s's OWN arrival history: at each tick the
   recount's missing list of the arrivals of s since it was bound, filtered by the
   maxNacksPerPacket rule.  Composes C03_tick_per_stream, C03_missing_exact,
   C03_missing_nodup, C03_streams_independent and the counter lemmas behind C03_nack_limit. *)
Theorem C03_generator_requests_exactly_missing : forall c s, cfg_ok c -> forall ops, ops_u16 ops ->
  map (out_for s) (run c gen_init ops) = spec_stream c s ss_init ops.
Proof. exact generator_requests_exactly_missing. Qed.
Print Assumptions C03_generator_requests_exactly_missing.

(* non-vacuity: two streams, a limit of 1, a read error, an unbind *)
Example C03_generator_requests_exactly_missing_nonvacuous :
  let c := mk_cfg 64 0 1 in
  let ops := [Bind 7 true; Bind 9 true; Arrive 7 10 true; Arrive 9 65535 true; Arrive 7 11 false;
              Arrive 7 13 true; Arrive 9 2 true; Tick; Tick; Arrive 7 16 true; Tick; Unbind 7; Tick] in
  cfg_ok c /\ ops_u16 ops /\
  map (out_for 7) (run c gen_init ops) = [Some [11; 12]; None; Some [14; 15]; None] /\
  map (out_for 9) (run c gen_init ops) = [Some [0; 1]; None; None; None] /\
  spec_stream c 7 ss_init ops = [Some [11; 12]; None; Some [14; 15]; None].
Proof.
  cbv zeta. split; [unfold cfg_ok; cbn; lia|]. split; [repeat constructor; cbn; lia|].
  split; [vm_compute; reflexivity|]. split; vm_compute; reflexivity.
Qed.
Print Assumptions C03_generator_requests_exactly_missing_nonvacuous.

(* FULL, no limit configured: at every tick of every history the NACK for s is exactly the
   recount's missing list of s's own arrivals (no packet when the list is empty or s is not bound) *)
Theorem C03_generator_no_limit_exact : forall c s ops, cfg_ok c -> ops_u16 ops -> c_max c = 0 ->
  map (out_for s) (run c gen_init ops) =
  map (fun a => match a with Some m => nonempty m | None => None end) (own_missing c s ops).
Proof. exact generator_no_limit_exact. Qed.
Print Assumptions C03_generator_no_limit_exact.

(* FULL, any limit, in the words of the property text: whatever is requested for s at the n-th
   tick of a history is the 16-bit image of a number that lies after the first packet s ever
   received, within the window behind the highest received less skipLastN, and was not
   received - all with respect to s's own arrivals at that tick *)
Theorem C03_generator_requested_only_missing : forall c s ops, cfg_ok c -> ops_u16 ops ->
  forall n r x, nth_error (map (out_for s) (run c gen_init ops)) n = Some (Some r) -> In x r ->
  exists l st u, nth_error (own_arrivals s None ops) n = Some (Some l) /\
    s_add_all None l = Some st /\ x = u16 u /\ is_missing (c_size c) (c_skip c) st u.
Proof. exact generator_requested_only_missing. Qed.
Print Assumptions C03_generator_requested_only_missing.

(* ... and without a limit every such number is requested *)
Theorem C03_generator_no_limit_complete : forall c s ops, cfg_ok c -> ops_u16 ops ->
  forall n l st u, c_max c = 0 ->
  nth_error (own_arrivals s None ops) n = Some (Some l) -> s_add_all None l = Some st ->
  is_missing (c_size c) (c_skip c) st u ->
  exists r, nth_error (map (out_for s) (run c gen_init ops)) n = Some (Some r) /\ In (u16 u) r.
Proof. exact generator_no_limit_complete. Qed.
Print Assumptions C03_generator_no_limit_complete.

(* a stream that is not bound at a tick (never bound, bound without nack feedback, unbound) is
   sent nothing at that tick, whatever its old reader still delivers *)
Theorem C03_generator_unbound_silent : forall c s ops, cfg_ok c -> ops_u16 ops ->
  forall n, nth_error (own_arrivals s None ops) n = Some None ->
  nth_error (map (out_for s) (run c gen_init ops)) n = Some None.
Proof. exact generator_unbound_silent. Qed.
Print Assumptions C03_generator_unbound_silent.

(* FULL (limit over whole generator histories): in any stretch `mid` of a history, after any
   prefix `pre`, that contains no UnbindRemoteStream and no further BindRemoteStream of s (one
   binding of s) and at every tick of which x is in the missing list of s's own arrivals, x is
   requested at most maxNacksPerPacket times - with any other streams and arrivals interleaved *)
Theorem C03_generator_nack_limit : forall c s, cfg_ok c -> forall pre mid x,
  0 < c_max c -> ops_u16 (pre ++ mid) ->
  forallb (fun o => negb (ends_binding_of s o)) mid = true ->
  (forall a, In a (skipn (n_ticks pre) (own_missing c s (pre ++ mid))) -> exists m, a = Some m /\ In x m) ->
  req_count x (skipn (n_ticks pre) (map (out_for s) (run c gen_init (pre ++ mid)))) <= c_max c.
Proof. exact generator_nack_limit. Qed.
Print Assumptions C03_generator_nack_limit.

(* ... and exactly min(limit, number of ticks) times over the stretch that follows a
   BindRemoteStream of s (x is missing at every tick since the bind), whatever happened before *)
Theorem C03_generator_nack_limit_exact_fresh : forall c s, cfg_ok c -> forall pre mid x,
  0 < c_max c -> ops_u16 (pre ++ Bind s true :: mid) ->
  forallb (fun o => negb (ends_binding_of s o)) mid = true ->
  (forall a, In a (skipn (n_ticks pre) (own_missing c s (pre ++ Bind s true :: mid))) ->
     exists m, a = Some m /\ In x m) ->
  req_count x (skipn (n_ticks pre) (map (out_for s) (run c gen_init (pre ++ Bind s true :: mid)))) =
  Z.min (Z.of_nat (n_ticks mid)) (c_max c).
Proof. exact generator_nack_limit_exact_fresh. Qed.
Print Assumptions C03_generator_nack_limit_exact_fresh.

(* non-vacuity of the two limit theorems: limit 2; stream 7 is bound twice without an unbind
   (12 was requested for the replaced binding); under the second binding 12 stays missing over
   four ticks while stream 9 and further arrivals of 7 are interleaved *)
Example C03_generator_nack_limit_nonvacuous :
  let c := mk_cfg 64 0 2 in
  let pre := [Bind 9 true; Arrive 9 5 true; Arrive 9 7 true; Bind 7 true; Arrive 7 10 true;
              Arrive 7 13 true; Tick] in
  let mid := [Arrive 7 10 true; Arrive 7 13 true; Tick; Arrive 9 9 true; Tick;
              Arrive 7 11 true; Tick; Arrive 7 20 true; Tick] in
  forallb (fun o => negb (ends_binding_of 7 o)) mid = true /\
  (forall a, In a (skipn (n_ticks pre) (own_missing c 7 (pre ++ Bind 7 true :: mid))) ->
     exists m, a = Some m /\ In 12 m) /\
  req_count 12 (skipn (n_ticks pre) (map (out_for 7) (run c gen_init (pre ++ Bind 7 true :: mid)))) = 2.
Proof.
  cbv zeta. split; [reflexivity|]. split; [|vm_compute; reflexivity].
  intros a Ha. vm_compute in Ha.
  repeat (destruct Ha as [<-|Ha]; [eexists; split; [reflexivity|cbn; tauto]|]). destruct Ha.
Qed.
Print Assumptions C03_generator_nack_limit_nonvacuous.

(* the closed-form limit rule of the specification is what the counter loop, the prune loop
   and the `count == 0 => continue` of the tick compute (for duplicate-free missing lists, which
   are the only ones the log produces: C03_missing_nodup) *)
Theorem C03_tick_is_limit_rule : forall mx m c cnt, 0 <= mx < 65536 -> NoDup m ->
  (forall x, cgetO c x = cnt x) -> (forall x, 0 <= cnt x <= mx) ->
  fst (tick_one mx m c) = fst (spec_tick mx m cnt) /\
  (forall x, cgetO (snd (tick_one mx m c)) x = snd (spec_tick mx m cnt) x) /\
  (forall x, 0 <= snd (spec_tick mx m cnt) x <= mx).
Proof. exact tick_one_spec. Qed.
Print Assumptions C03_tick_is_limit_rule.

(* FULL (receiveLog.get): for every valid size, every arrival list and every 16-bit number x,
   get(x) is the recount's answer: true exactly when x is the image of a received number that
   lies within `size` behind the highest received *)
Theorem C03_get_exact : forall sz m0 l x,
  new_log sz = Some m0 -> all_u16 l -> 0 <= x < 65536 ->
  get (add_all m0 l) x = spec_get sz (s_add_all None l) x.
Proof. exact get_exact. Qed.
Print Assumptions C03_get_exact.

Theorem C03_get_true_iff : forall sz m0 l x s,
  new_log sz = Some m0 -> all_u16 l -> 0 <= x < 65536 -> s_add_all None l = Some s ->
  (get (add_all m0 l) x = true <->
   exists u, x = u16 u /\ s_hi s - sz < u <= s_hi s /\ In u (s_rcv s)).
Proof. exact get_true_iff. Qed.
Print Assumptions C03_get_true_iff.

Example C03_get_exact_nonvacuous :
  exists m0, new_log 64 = Some m0 /\ all_u16 [65534; 2; 1; 70] /\
    map (get (add_all m0 [65534; 2; 1; 70])) [65534; 2; 1; 70; 0; 7; 6; 71] =
      [false; false; false; true; false; false; false; false] /\
    map (get (add_all m0 [65534; 2; 1])) [65534; 2; 1; 0; 3] = [true; true; true; false; false].
Proof.
  eexists. split; [reflexivity|]. split; [repeat constructor; lia|]. split; vm_compute; reflexivity.
Qed.
Print Assumptions C03_get_exact_nonvacuous.

(* get and missingSeqNumbers never contradict each other *)
Theorem C03_missing_not_get : forall sz m0 l skip x,
  new_log sz = Some m0 -> all_u16 l -> 0 <= skip < 65536 ->
  In x (missing (add_all m0 l) skip) -> get (add_all m0 l) x = false.
Proof. exact missing_not_get. Qed.
Print Assumptions C03_missing_not_get.

(* the executable form of the specification used by the stream oracle computes spec_stream *)
Theorem C03_fast_stream_is_spec_stream : forall c s ops,
  fast_stream c s fs_init ops = spec_stream c s ss_init ops.
Proof. intros c s ops. exact (fast_stream_eq c s ops fs_init ss_init frel_init). Qed.
Print Assumptions C03_fast_stream_is_spec_stream.

(* the stream oracle (api_stream_failures, applied to the IMPLEMENTATION's outputs) accepts a
   case exactly when every tick output is well formed, there is one output per tick and, for
   every SSRC that occurs in the case, the NACKs the implementation sent for it are the
   right-hand side of C03_generator_requests_exactly_missing *)
Theorem C03_stream_oracle_sound : forall sz skip mx ops outs ops', to_ops ops = Some ops' ->
  (api_stream_code ((sz, skip, mx), ops, outs) = 0%nat <->
   forallb sorted_keys (expand_outs outs) = true /\
   length (expand_outs outs) = n_ticks ops' /\
   forall s, In s (case_ssrcs ops' (expand_outs outs)) ->
     map (out_for s) (expand_outs outs) = spec_stream (mk_cfg sz skip mx) s ss_init ops').
Proof. exact api_stream_code_iff. Qed.
Print Assumptions C03_stream_oracle_sound.
