(* C02 (round 5) - "No byte sequence arriving as an incoming RTP ... packet, and no outgoing RTP packet of any
   size or HEADER SHAPE, makes any interceptor panic ..., index out of bounds ...; malformed or inconsistent
   input is either rejected with an error or ignored, and the interceptor keeps working for subsequent
   well-formed packets", for the part of both paths where the LENGTH of an RFC 8285 header-extension element
   (the sender's choice: 1..16 bytes in the one-byte profile, 0..255 in the two-byte profile) meets a reader
   that expects the 2 bytes of the URI negotiated for its id: the transport-cc element read by the twcc sender
   interceptor (incoming), the cc / gcc feedback adapter and the rtpfb interceptor (outgoing)
   (Model/HdrExt.v, which also mirrors the extension loop of pion/rtp's Header.Unmarshal).
   PARTIAL like C02.v / C02c.v / C02d.v: the theorems are about these three readers and the parse for ALL
   packets; all 17 interceptor configurations go through the header-extension histories of the harness (sets
   c02extr / c02extw / c02extm / c02exts, oracle ext_spec_failures, correspondence ext_mismatches), which is testing. *)
From IV Require Import Base.Word Model.HdrExt Check.C02Check Proofs.HdrExtProofs.

(* whatever the packet (profile, declared block length, bytes) and whatever id the stream negotiated: none of
   the three readers panics *)
Theorem C02e_header_extension_readers_never_panic : forall negid profile words avail es,
  twcc_sender_read true negid (parse_hdr profile words avail) <> VPanic /\
  cc_on_sent true negid es <> VPanic /\
  rtpfb_write true negid es <> VPanic.
Proof. exact hdrext_readers_never_panic. Qed.
Print Assumptions C02e_header_extension_readers_never_panic.

(* "index out of bounds": every element a reader can be handed is a slice of the bytes the packet has *)
Theorem C02e_parsed_elements_within_packet : forall profile words avail es,
  parse_hdr profile words avail = Some es -> within (length avail) es.
Proof. exact parsed_elements_within_packet. Qed.
Print Assumptions C02e_parsed_elements_within_packet.
(* non-vacuity: two elements, padding in between *)
Example C02e_parsed_elements_example :
  parse_hdr prof_one_byte 2 [16; 170; 0; 81; 1; 2; 0; 0] = Some [(1, [170]); (5, [1; 2])].
Proof. reflexivity. Qed.
Print Assumptions C02e_parsed_elements_example.

(* refutation of reading the sequence number with binary.BigEndian.Uint16 on the raw element: a parsable packet
   whose element under the negotiated id has 1 byte (one-byte profile, L = 0) or 0 bytes (two-byte profile) is
   an index out of range there, and an ordinary rejection (or, for rtpfb, the fallback) in the code as it is *)
Theorem C02e_unchecked_uint16_read_refuted :
  parse_hdr prof_one_byte 1 [16; 170; 0; 0] = Some [(1, [170])] /\
  parse_hdr prof_two_byte 1 [1; 0; 0; 0] = Some [(1, [])] /\
  twcc_sender_read false 1 (parse_hdr prof_one_byte 1 [16; 170; 0; 0]) = VPanic /\
  twcc_sender_read false 1 (parse_hdr prof_two_byte 1 [1; 0; 0; 0]) = VPanic /\
  twcc_sender_read true 1 (parse_hdr prof_one_byte 1 [16; 170; 0; 0]) = VReject /\
  twcc_sender_read true 1 (parse_hdr prof_two_byte 1 [1; 0; 0; 0]) = VReject /\
  cc_on_sent false 1 [(1, [170])] = VPanic /\ cc_on_sent true 1 [(1, [170])] = VReject /\
  rtpfb_write false 1 [(1, [])] = VPanic /\ rtpfb_write true 1 [(1, [])] = VAccept.
Proof. exact unchecked_uint16_refuted. Qed.
Print Assumptions C02e_unchecked_uint16_read_refuted.

(* ... and ONLY such a packet tells the two apart: extension values that are always 2 bytes long (built by
   TransportCCExtension.Marshal, as in every earlier input of the harness) could not see it *)
Theorem C02e_variants_differ_only_on_short_element : forall negid es,
  (forall p, get_ext negid es = Some p -> (2 <= length p)%nat) ->
  twcc_sender_read false negid (Some es) = twcc_sender_read true negid (Some es) /\
  cc_on_sent false negid es = cc_on_sent true negid es /\
  rtpfb_write false negid es = rtpfb_write true negid es.
Proof. exact variants_differ_only_on_short_element. Qed.
Print Assumptions C02e_variants_differ_only_on_short_element.

(* "keeps working for well-formed packets", per packet (the readers keep no state between packets that a
   rejected packet could spoil): an incoming packet without the element or with a 2-byte one is accepted *)
Theorem C02e_wellformed_incoming_accepted : forall negid es, tcc_elem_ok negid es ->
  twcc_sender_read true negid (Some es) = VAccept.
Proof. exact wellformed_incoming_accepted. Qed.
Print Assumptions C02e_wellformed_incoming_accepted.
Example C02e_wellformed_incoming_example :
  tcc_elem_ok 5 [(2, [1; 2; 3]); (5, [0; 7])] /\ twcc_sender_read true 5 (Some [(2, [1; 2; 3]); (5, [0; 7])]) = VAccept.
Proof. split; reflexivity. Qed.
Print Assumptions C02e_wellformed_incoming_example.

(* ... and an outgoing packet that carries the 2-byte element (or whose stream did not negotiate transport-cc) *)
Theorem C02e_wellformed_outgoing_accepted : forall negid es p,
  (negid = 0 \/ (get_ext negid es = Some p /\ length p = 2%nat)) ->
  cc_on_sent true negid es = VAccept /\ rtpfb_write true negid es = VAccept.
Proof. exact wellformed_outgoing_accepted. Qed.
Print Assumptions C02e_wellformed_outgoing_accepted.

(* the boolean oracle run on the implementation's outputs says exactly what the property says per call *)
Theorem C02e_ext_oracle_iff : forall c, ext_code c = 0%nat <-> Forall (ext_step_ok (fst c)) (snd c).
Proof. exact ext_code_iff. Qed.
Print Assumptions C02e_ext_oracle_iff.

(* a call on which the implementation agrees with the model returned (with or without an error) *)
Theorem C02e_ext_conformance_implies_returns : forall tgt s v,
  ext_step_conforms tgt s = true -> ext_model_verdict tgt s = Some v ->
  let '(_, _, _, (st, _, _, _)) := s in st = 0 \/ st = 1.
Proof. exact ext_conformance_implies_returns. Qed.
Print Assumptions C02e_ext_conformance_implies_returns.
