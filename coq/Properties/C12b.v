(* C12 (deepening round) - further statements about the size models; proofs in
   Proofs/MemBoundMore.v and Proofs/MemBoundCloseProofs.v. Same PARTIAL scope as
   Properties/C12.v: entry counts of the retained containers, not heap bytes;
   "released" = the entries leave the interceptor's containers. *)
From IV Require Import Base.Word Model.Unwrapper Model.MemBound Model.MemBoundClose
  Proofs.MemBoundProofs Proofs.MemBoundMore Proofs.MemBoundCloseProofs.
Open Scope Z_scope.

(* rtpfb history, the two index maps (twccToCounter, ssrcSeqNrToCounter): for EVERY history of
   addOutgoing / feedback / buildReport - including sequence numbers that are used again by a later
   packet (retransmission, wrap-around) - the two indexes together hold at most as many entries as
   the packet map, which holds at most the packets sent after the last reported one *)
Theorem C12_rtpfb_indexes_bounded : forall ops,
  let st := fold_left (h_step true) ops h_init in
  zlen (h_tw st) + zlen (h_ss st) <= zlen (h_packets st) /\ zlen (h_packets st) <= h_counter st - h_next st.
Proof. exact h_indexes_bounded. Qed.
Print Assumptions C12_rtpfb_indexes_bounded.

(* every index entry refers to a packet record that is still held and that carries this very key *)
Theorem C12_rtpfb_index_entries_live : forall ops,
  let st := fold_left (h_step true) ops h_init in
  (forall t c, aget t (h_tw st) = Some c -> exists p, aget c (h_packets st) = Some p /\ hp_isTw p = true /\ hp_tw p = t) /\
  (forall k c, aget k (h_ss st) = Some c -> exists p, aget c (h_packets st) = Some p /\ hp_isTw p = false /\ hp_key p = k).
Proof. intros ops. destruct (h_run_idx ops) as [_ [_ [_ [_ [A B]]]]]. split; assumption. Qed.
Print Assumptions C12_rtpfb_index_entries_live.

(* no packet record below the report cursor survives (whatever happened to its sequence numbers) *)
Theorem C12_rtpfb_reported_released : forall ops k,
  let st := fold_left (h_step true) ops h_init in k < h_next st -> aget k (h_packets st) = None.
Proof. exact h_reported_released. Qed.
Print Assumptions C12_rtpfb_reported_released.
Example C12_rtpfb_retransmission_released :
  let ops := [HAdd 1 10 false 0; HAdd 1 11 false 0; HAdd 1 12 false 0; HAdd 1 10 false 0;
              HAckSs 1 11 true; HAckSs 1 12 true; HReport] in
  h_sizes (fold_left (h_step true) ops h_init) = [1; 0; 1] /\
  h_sizes (fold_left (h_step true) (ops ++ [HAckSs 1 10 true; HReport]) h_init) = [0; 0; 0].
Proof. exact h_retransmission_released. Qed.
Print Assumptions C12_rtpfb_retransmission_released.

(* Close that RELEASES entries: jitter-buffer interceptor (queue emptied, state as at start) and NACK
   responder (stream map emptied and empty for ever: Bind after Close registers nothing) *)
Theorem C12_close_releases :
  (forall st, jb_q (jb_close st) = []) /\
  (forall st ops, let st' := fold_left rsp_step ops (rsp_step st RspClose) in
                  rsp_streams st' = [] /\ rsp_occupied st' = 0) /\
  (forall st s, aget s (rsp_streams (rsp_step st (RspUnbind s))) = None).
Proof.
  split; [exact jb_close_empty|split; [|exact rsp_unbind_releases]].
  intros st ops. cbv zeta. destruct (rsp_closed_stays ops (rsp_step st RspClose)) as [A B]; [reflexivity|reflexivity|].
  split; [assumption|]. unfold rsp_occupied. rewrite A. reflexivity.
Qed.
Print Assumptions C12_close_releases.

(* NACK responder: every ring registered in the stream map holds at most `size` packets, for every
   history of Bind / Unbind / Write / Close (NewRTPBuffer only accepts positive sizes) *)
Theorem C12_responder_bounded : forall ops s b, rsp_ops_ok ops ->
  aget s (rsp_streams (fold_left rsp_step ops rsp_init)) = Some b -> zlen (rb_occ b) <= rb_size b.
Proof. exact rsp_bounded. Qed.
Print Assumptions C12_responder_bounded.
Example C12_responder_nonvacuous :
  rsp_ops_ok [RspBind 1 8; RspWrite 1 5; RspWrite 1 6] /\
  rsp_occupied (fold_left rsp_step [RspBind 1 8; RspWrite 1 5; RspWrite 1 6] rsp_init) = 2.
Proof. split; [repeat constructor; lia|reflexivity]. Qed.
Print Assumptions C12_responder_nonvacuous.

(* stats interceptor with Close: recorders <= bound streams for every Bind/Unbind/Close history;
   Close itself removes nothing, but afterwards the recorder set can only shrink (Bind registers
   nothing, Unbind still releases); without Close the model is the one of C12_stats_recorders_bounded *)
Theorem C12_stats_close_bounded : forall ops,
  let st := fold_left sic_step ops sic_init in zlen (sic_recorders st) <= zlen (sic_bound st).
Proof. exact sic_bounded. Qed.
Print Assumptions C12_stats_close_bounded.
Theorem C12_stats_no_growth_after_close : forall st ops,
  let st0 := sic_step st ScClose in let st' := fold_left sic_step ops st0 in
  sic_recorders st0 = sic_recorders st /\
  incl (sic_recorders st') (sic_recorders st) /\ zlen (sic_recorders st') <= zlen (sic_recorders st).
Proof.
  intros st ops. cbv zeta. split; [reflexivity|].
  destruct (sic_after_close ops (sic_step st ScClose)) as [A [B _]]; [reflexivity|]. split; assumption.
Qed.
Print Assumptions C12_stats_no_growth_after_close.
Theorem C12_stats_close_refines : forall ops,
  let s := fold_left si_step ops si_init in
  fold_left sic_step (map sic_of_si ops) sic_init =
  {| sic_bound := si_bound s; sic_recorders := si_recorders s; sic_closed := false |}.
Proof. intros ops. exact (sic_no_close ops [] []). Qed.
Print Assumptions C12_stats_close_refines.

(* PARTIAL (Close that releases nothing): NACK generator and flexfec encoder keep every entry across
   Close (the code only stops the loop / is NoOp.Close): the bounds of C12_nackgen_bounded and
   C12_flexfec_bounded go on holding, the entries become collectable only with the interceptor value
   itself - which the size models cannot express. *)
Theorem C12_close_keeps_partial :
  (forall st, ng_sizes (ng_close st) = ng_sizes st) /\ (forall st, ff_sizes (ff_close st) = ff_sizes st).
Proof. split; reflexivity. Qed.
Print Assumptions C12_close_keeps_partial.

(* gcc leaky-bucket pacer after Close, REFUTED as "released": the queue keeps what it held, nothing
   drains it any more and Write still appends - after Close the length is the length at Close plus
   the number of later writes, whatever release ticks are interleaved *)
(* the code as it is now (after the fix): nothing is queued once the pacer is closed *)
Theorem C12_leakybucket_closed_no_growth : forall n0 ops,
  fold_left fqc_step_fixed ops (fqc_step_fixed (n0, false) FcClose) = (n0, true).
Proof. intros n0 ops. cbn [fqc_step_fixed fst]. exact (fqc_fixed_after_close ops n0). Qed.
Print Assumptions C12_leakybucket_closed_no_growth.

(* the code before that fix *)
Theorem C12_leakybucket_after_close_refuted : forall n0 ops,
  fst (fold_left fqc_step ops (fqc_step (n0, false) FcClose)) = n0 + fqc_enqs ops.
Proof. intros n0 ops. cbn [fqc_step fst]. rewrite fqc_after_close. reflexivity. Qed.
Print Assumptions C12_leakybucket_after_close_refuted.
Example C12_leakybucket_after_close_grows : forall n,
  fst (fold_left fqc_step (repeat FcEnq n) (fqc_step (3, false) FcClose)) = 3 + Z.of_nat n.
Proof. intros n. rewrite C12_leakybucket_after_close_refuted, fqc_enqs_repeat. reflexivity. Qed.
Print Assumptions C12_leakybucket_after_close_grows.

(* cc interceptor / gcc send-side BWE / pacer (leaky bucket and NoOp pacer): the per-stream writer map
   holds exactly the currently bound streams (no duplicates) after every Bind/Unbind history *)
Theorem C12_gcc_writers_bounded : forall ops,
  let st := fold_left gw_step ops gw_init in
  gw_writers st = gw_bound st /\ NoDup (gw_writers st).
Proof. intros ops. split; [apply gw_run_eq; reflexivity|apply gw_run_NoDup; constructor]. Qed.
Print Assumptions C12_gcc_writers_bounded.
Theorem C12_gcc_unbind_releases :
  (forall st s, ~ In s (gw_writers (gw_step st (GwUnbind s)))) /\
  (forall n, let st := fold_left gw_step (gw_churn 1 n) gw_init in gw_writers st = [] /\ gw_bound st = []).
Proof. split; [exact gw_unbind_releases|intros n; apply gw_churn_releases; reflexivity]. Qed.
Print Assumptions C12_gcc_unbind_releases.
(* a pacer whose RemoveStream is never reached (gw_step_keep: the code before fix 04f38da, or an
   assertion in SendSideBWE.RemoveStream that misses the configured pacer), REFUTED: n streams bound
   and unbound again leave n writers *)
Theorem C12_gcc_writers_kept_refuted : forall n,
  let st := fold_left gw_step_keep (gw_churn 1 n) gw_init in
  zlen (gw_writers st) = Z.of_nat n /\ gw_bound st = [].
Proof. intros n. apply (gw_churn_keeps n 1 gw_init); [cbn; tauto|reflexivity]. Qed.
Print Assumptions C12_gcc_writers_kept_refuted.
