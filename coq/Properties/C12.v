(* C12 - Memory held per interceptor is bounded regardless of stream length.
   Statements only; proofs are in Proofs/MemBoundProofs.v. PARTIAL: the
   theorems bound ENTRY COUNTS of the retained containers (size models of
   Model/MemBound.v), not heap bytes; that per-stream memory becomes
   collectable after Unbind/Close is modelled only as "the entries are removed
   from the interceptor's containers". *)
From IV Require Import Base.Word Model.Unwrapper Model.MemBound Proofs.MemBoundProofs.
Open Scope Z_scope.

(* nack receiveLog bitmap: size/64 words after every packet history *)
Theorem C12_receivelog_bounded : forall size seqs, fold_left rl_step seqs (rl_init size) = size / 64.
Proof. exact rl_run. Qed.
Print Assumptions C12_receivelog_bounded.

(* report receiverStream bitmap: 128 words after every packet history *)
Theorem C12_receiverstream_bounded : forall seqs, fold_left rs_step seqs rs_init = 128.
Proof. exact rs_run. Qed.
Print Assumptions C12_receiverstream_bounded.

(* feedback adapter LRU: at most 250 keys after every history of sent packets *)
Theorem C12_feedback_lru_bounded : forall keys, zlen (fold_left (lru_add 250) keys []) <= 250.
Proof. intros keys. apply lru_bounded. lia. Qed.
Print Assumptions C12_feedback_lru_bounded.

(* twcc arrival-time map: the ring never exceeds 2^15 slots, for every history
   of AddPacket / EraseTo / RemoveOldPackets with arbitrary arguments *)
Theorem C12_arrivalmap_bounded : forall ops, am_cap (fold_left am_step ops am_init) <= 32768.
Proof. exact am_bounded. Qed.
Print Assumptions C12_arrivalmap_bounded.

(* stats recorder: the two report lists hold at most 5 values *)
Theorem C12_stats_lists_bounded : forall ops,
  fst (fold_left (sr_step 5) ops (0, 0)) <= 5 /\ snd (fold_left (sr_step 5) ops (0, 0)) <= 5.
Proof. intros ops. apply (sr_bounded 5 ops). lia. Qed.
Print Assumptions C12_stats_lists_bounded.

(* leaky-bucket pacer / pacing interceptor queues: no admission limit - n
   packets written while the budget releases nothing are n queued packets *)
Theorem C12_queue_unbounded_refuted : forall n, fold_left fq_step (repeat FqEnq n) 0 = Z.of_nat n.
Proof. intros n. rewrite fq_enq_only. lia. Qed.
Print Assumptions C12_queue_unbounded_refuted.

(* rtp buffer (NACK responder): at most `size` slots hold a packet, for every sequence of Add *)
Theorem C12_rtpbuffer_bounded : forall size seqs, 0 < size ->
  zlen (rb_occ (fold_left rb_add seqs (rb_init size))) <= size.
Proof. exact rb_bounded. Qed.
Print Assumptions C12_rtpbuffer_bounded.

(* NACK generator: per stream at most `size` counters, for every history of
   Bind / Unbind / tick in which a tick reports at most `size` missing numbers
   (receiveLog.missingSeqNumbers writes into a buffer of `size` entries) *)
Theorem C12_nackgen_bounded : forall max size ops ssrc m, 0 <= size -> ng_ops_ok size ops ->
  aget ssrc (ng_logs (fold_left (ng_step max) ops ng_init)) = Some m -> zlen m <= size.
Proof. intros max size ops ssrc m Hs Hok E. exact (proj2 (ng_run_inv max size ops Hs Hok ssrc m E)). Qed.
Print Assumptions C12_nackgen_bounded.
Example C12_nackgen_nonvacuous :
  ng_ops_ok 64 [NgBind 1; NgTick 1 [5; 7]; NgTick 1 [7]] /\
  ng_sizes (fold_left (ng_step 2) [NgBind 1; NgTick 1 [5; 7]; NgTick 1 [7]] ng_init) = [1; 1; 1].
Proof. split; [repeat constructor; cbn; lia|reflexivity]. Qed.
Print Assumptions C12_nackgen_nonvacuous.

(* rfc8888 stream log: right after a report with a budget of m metric blocks
   the log holds at most m entries, whatever was received before; between
   reports it grows by at most one entry per packet *)
Theorem C12_streamlog_bounded_after_report : forall ops m,
  zlen (sl_keys (sl_report (fold_left sl_step ops sl_init_st) m)) <= Z.max m 0.
Proof. intros ops m. apply sl_report_bound, sl_run_inv. Qed.
Print Assumptions C12_streamlog_bounded_after_report.
Theorem C12_streamlog_growth_per_packet : forall st s, zlen (sl_keys (sl_add st s)) <= zlen (sl_keys st) + 1.
Proof. exact sl_add_growth. Qed.
Print Assumptions C12_streamlog_growth_per_packet.

(* jitter-buffer interceptor, PARTIAL: as long as every read after playout
   started finds the playout head (jb_all_ok), at most 49 packets stay queued *)
Theorem C12_jitter_bounded_partial : forall seqs, jb_all_ok jb_init seqs = true ->
  zlen (jb_q (fold_left jb_read seqs jb_init)) < 50.
Proof. intros seqs H. apply (jb_bounded_ok seqs jb_init H). cbn. lia. Qed.
Print Assumptions C12_jitter_bounded_partial.
Example C12_jitter_bounded_nonvacuous :
  jb_all_ok jb_init (map (fun k => (65500 + Z.of_nat k) mod 65536) (seq 0 200)) = true.
Proof. vm_compute. reflexivity. Qed.
Print Assumptions C12_jitter_bounded_nonvacuous.
(* ... and REFUTED in general (F31): sequence number 1 is lost; after 0, 2..51
   the head is stuck at 1 and every further packet (any numbers but 1) stays *)
Theorem C12_jitter_stuck_refuted : forall l, (forall s, In s l -> s <> 1) ->
  zlen (jb_q (fold_left jb_read (0 :: zrange 2 50 ++ l) jb_init)) = 50 + zlen l.
Proof.
  intros l Hl. change (0 :: zrange 2 50 ++ l) with ((0 :: zrange 2 50) ++ l). rewrite fold_left_app.
  set (st0 := fold_left jb_read (0 :: zrange 2 50) jb_init).
  assert (E : st0 = {| jb_q := jb_q st0; jb_emitting := true; jb_ready := true; jb_head := 1; jb_min := 50 |})
    by (vm_compute; reflexivity).
  assert (Hn : ~ In 1 (jb_q st0)) by (apply memZ_false; vm_compute; reflexivity).
  assert (Hz : zlen (jb_q st0) = 50) by (vm_compute; reflexivity).
  rewrite (jb_stuck l st0); [lia|rewrite E; reflexivity|rewrite E; reflexivity| |].
  - rewrite E. cbn [jb_head]. rewrite <- E. assumption.
  - rewrite E. cbn [jb_head]. assumption.
Qed.
Print Assumptions C12_jitter_stuck_refuted.

(* flexfec encoder: fewer than NumMediaPackets buffered packets per bound stream ... *)
Theorem C12_flexfec_bounded : forall numMedia ops s b, 1 <= numMedia ->
  aget s (fold_left (ff_step numMedia) ops []) = Some b -> 0 <= b < numMedia.
Proof. intros numMedia ops s b Hm. apply ff_bounded, Hm. Qed.
Print Assumptions C12_flexfec_bounded.
(* ... REFUTED for NumMediaPackets(0): n packets written, n buffered *)
Theorem C12_flexfec_zero_refuted : forall n,
  aget 1 (fold_left (ff_step 0) (FfBind 1 :: repeat (FfWrite 1) n) []) = Some (Z.of_nat n).
Proof. intros n. cbn [fold_left ff_step aset]. rewrite (ff_zero_grows n _ 1 0); [f_equal|reflexivity|lia]. Qed.
Print Assumptions C12_flexfec_zero_refuted.

(* stats interceptor (with fix 0d520bf: Unbind{Local,Remote}Stream release the recorder): after every
   Bind/Unbind history the recorders are exactly the currently bound streams (no duplicates), an
   unbound stream has no recorder, and n streams bound and unbound again leave nothing *)
Theorem C12_stats_recorders_bounded : forall ops,
  let st := fold_left si_step ops si_init in
  si_recorders st = si_bound st /\ NoDup (si_recorders st).
Proof. intros ops. split; [apply si_run_eq; reflexivity|apply si_run_NoDup; constructor]. Qed.
Print Assumptions C12_stats_recorders_bounded.
Theorem C12_stats_unbind_releases :
  (forall st s, ~ In s (si_recorders (si_step st (SiUnbind s)))) /\
  (forall n, let st := fold_left si_step (si_churn 1 n) si_init in si_recorders st = [] /\ si_bound st = []).
Proof. split; [exact si_unbind_releases|intros n; apply si_churn_releases; reflexivity]. Qed.
Print Assumptions C12_stats_unbind_releases.
(* the code BEFORE that fix (si_step_prefix: no Unbind*Stream), REFUTED (F38): n streams bound and
   unbound again left n recorders. Statement about the pre-fix function only. *)
Theorem C12_stats_unbind_refuted : forall n,
  let st := fold_left si_step_prefix (si_churn 1 n) si_init in
  zlen (si_recorders st) = Z.of_nat n /\ si_bound st = [].
Proof. intros n. apply (si_churn_grows n 1 si_init); [cbn; tauto|reflexivity]. Qed.
Print Assumptions C12_stats_unbind_refuted.

(* rtpfb history (with the fixes for F30/F15): the packet map only holds
   packets sent after the last reported one - PARTIAL: the bound is the number
   of packets in flight, not a function of the configuration *)
Theorem C12_rtpfb_bounded_partial : forall ops,
  let st := fold_left (h_step true) ops h_init in zlen (h_packets st) <= h_counter st - h_next st.
Proof. exact (h_bounded true). Qed.
Print Assumptions C12_rtpfb_bounded_partial.
(* REFUTED when no feedback ever arrives: n packets sent, n records *)
Theorem C12_rtpfb_no_feedback_refuted : forall n,
  zlen (h_packets (fold_left (h_step true) (repeat (HAdd 1 0 false 0) n) h_init)) = Z.of_nat n.
Proof.
  intros n. pose proof (h_no_feedback true n h_init) as H. cbv zeta in H. rewrite H; [reflexivity|].
  split; [constructor|split; [cbn; tauto|cbn; lia]].
Qed.
Print Assumptions C12_rtpfb_no_feedback_refuted.

(* Unbind / Clear release the per-stream entries *)
Theorem C12_unbind_releases :
  (forall max st s, aget s (ng_logs (ng_step max st (NgUnbind s))) = None /\
                    ~ In s (ng_bound (ng_step max st (NgUnbind s)))) /\
  (forall st, jb_q (jb_step st JbUnbind) = []) /\
  (forall numMedia st s, aget s (ff_step numMedia st (FfUnbind s)) = None).
Proof.
  split; [|split].
  - intros max st s. cbn [ng_step ng_logs ng_bound]. split; [rewrite aget_adel, Z.eqb_refl; reflexivity|].
    intros H. apply delset_In in H. tauto.
  - reflexivity.
  - intros numMedia st s. cbn [ff_step]. rewrite aget_adel, Z.eqb_refl. reflexivity.
Qed.
Print Assumptions C12_unbind_releases.

(* gcc rate calculator, PARTIAL: after every acknowledgment the oldest retained
   entry lies within the window of the newest arrival (for non-decreasing
   arrival times the whole history then lies within the window, so its length
   is the number of acknowledgments per window - not a function of the
   configuration alone) *)
Theorem C12_ratecalc_window_partial : forall w h a,
  match snd (rc_step w (true, h) a) with [] => True | oldest :: _ => a - w <= oldest end.
Proof. intros w h a. cbn [rc_step negb snd]. apply rc_drop_head. Qed.
Print Assumptions C12_ratecalc_window_partial.
(* REFUTED as a bound: acknowledgments carrying the same arrival time are never dropped *)
Theorem C12_ratecalc_constant_arrival_refuted : forall w a n, 0 <= w ->
  zlen (snd (fold_left (rc_step w) (repeat a (S n)) (false, []))) = Z.of_nat (S n).
Proof.
  intros w a n Hw. cbn [repeat fold_left]. change (rc_step w (false, []) a) with (true, repeat a 1).
  rewrite rc_const_grows by assumption. cbn [snd]. unfold zlen. rewrite repeat_length. lia.
Qed.
Print Assumptions C12_ratecalc_constant_arrival_refuted.
