(* C12 - Memory held per interceptor is bounded regardless of stream length.
   Statements only; proofs are in Proofs/MemBoundProofs.v. PARTIAL: the
   theorems bound ENTRY COUNTS of the retained containers (size models of
   Model/MemBound.v), not heap bytes; that per-stream memory becomes
   collectable after Unbind/Close is modelled only as "the entries are removed
   from the interceptor's containers". *)
From IV Require Import Base.Word Model.Unwrapper Model.MemBound Proofs.MemBoundProofs.
Open Scope Z_scope.

(* nack receiveLog bitmap: size/64 words after every packet history *)
Theorem C12_receivelog_bounded : forall size seqs, fold_left rl_step seqs (rl_init size) = size / 64.
Proof. exact rl_run. Qed.
Print Assumptions C12_receivelog_bounded.

(* report receiverStream bitmap: 128 words after every packet history *)
Theorem C12_receiverstream_bounded : forall seqs, fold_left rs_step seqs rs_init = 128.
Proof. exact rs_run. Qed.
Print Assumptions C12_receiverstream_bounded.

(* feedback adapter LRU: at most 250 keys after every history of sent packets *)
Theorem C12_feedback_lru_bounded : forall keys, zlen (fold_left (lru_add 250) keys []) <= 250.
Proof. intros keys. apply lru_bounded. lia. Qed.
Print Assumptions C12_feedback_lru_bounded.

(* twcc arrival-time map: the ring never exceeds 2^15 slots, for every history
   of AddPacket / EraseTo / RemoveOldPackets with arbitrary arguments *)
Theorem C12_arrivalmap_bounded : forall ops, am_cap (fold_left am_step ops am_init) <= 32768.
Proof. exact am_bounded. Qed.
Print Assumptions C12_arrivalmap_bounded.

(* stats recorder: the two report lists hold at most 5 values *)
Theorem C12_stats_lists_bounded : forall ops,
  fst (fold_left (sr_step 5) ops (0, 0)) <= 5 /\ snd (fold_left (sr_step 5) ops (0, 0)) <= 5.
Proof. intros ops. apply (sr_bounded 5 ops). lia. Qed.
Print Assumptions C12_stats_lists_bounded.

(* leaky-bucket pacer / pacing interceptor queues: no admission limit - n
   packets written while the budget releases nothing are n queued packets *)
Theorem C12_queue_unbounded_refuted : forall n, fold_left fq_step (repeat FqEnq n) 0 = Z.of_nat n.
Proof. intros n. rewrite fq_enq_only. lia. Qed.
Print Assumptions C12_queue_unbounded_refuted.
