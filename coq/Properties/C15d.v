(* C15 (round 4) - one consecutive run PER INTERCEPTOR INSTANCE, over whole API
   histories: several factories, several instances (also of the same factory),
   streams bound, unbound, re-bound, held writers, Close and the other calls. *)
From IV Require Import Base.Word Model.TwccHdrExt Model.TwccLifecycle Proofs.TwccHdrExtProofs
  Check.C15Check Check.C15LifeCheck Proofs.TwccLifecycleProofs.
From Coq Require Import Permutation.

(* For EVERY history of API calls, from every state, what instance i forwards is exactly
   the single-instance sequential run (Model.TwccHdrExt.run, the subject of the theorems
   of C15.v) of its own writes, started at its own counter: traffic of any other instance,
   whichever factory made it, and every Bind / Unbind / Close / other call are invisible. *)
Theorem C15d_instance_isolated : forall ops st i,
  own_outs i (life_trace st ops) = run (ctr_of st i) (own_ops i (l_writers st) ops).
Proof. exact life_instance_isolated. Qed.
Print Assumptions C15d_instance_isolated.

(* UnbindLocalStream, Close, BindRemoteStream/UnbindRemoteStream/BindRTCPReader/BindRTCPWriter
   and the creation of further instances can be deleted from any history without changing
   a single forwarded header: no call restarts, skips or redirects a counter. *)
Theorem C15d_lifecycle_calls_invisible : forall ops st,
  life_trace st (filter (fun o => negb (is_plain_call o)) ops) = life_trace st ops.
Proof. exact life_calls_invisible. Qed.
Print Assumptions C15d_lifecycle_calls_invisible.

(* The numbers: in any history the k-th write of instance i, when it is a write in the
   RFC 8285 scope on a negotiated stream, is forwarded carrying exactly
   (counter of i at the start + number of writes on negotiated streams of i before it) mod 2^16
   in the extension, with the fixed header and all other extensions unchanged -
   one gap-free, duplicate-free run per instance. *)
Theorem C15d_instance_numbers_consecutive : forall ops st i k sid h,
  0 <= ctr_of st i < 4294967296 ->
  nth_error (own_ops i (l_writers st) ops) k = Some (sid, Some h) ->
  sid <> 0 -> in_scope sid h = true -> fresh sid h = true ->
  exists h', nth_error (own_outs i (life_trace st ops)) k = Some (Forward h') /\
    get_ext sid (h_exts h') =
      Some (tcc_bytes (ctr_of st i + Z.of_nat (bound_count (firstn k (own_ops i (l_writers st) ops))))) /\
    h_fixed h' = h_fixed h /\ others sid (h_exts h') = others sid (h_exts h).
Proof. exact life_instance_numbers. Qed.
Print Assumptions C15d_instance_numbers_consecutive.

(* non-vacuity: two instances of factory 0, traffic interleaved, stream 0 unbound and re-bound *)
Example C15d_numbers_example :
  let h := mkH [2; 0; 0; 96; 7; 1000; 42; 0] false 0 [] in
  let ops := [LNew 0 0; LNew 0 1; LBind 0 0 [3]; LBind 1 1 [5]; LWrite 0 (Some h); LWrite 1 (Some h);
              LWrite 0 (Some h); LUnbind 0 0; LBind 0 0 [3]; LWrite 1 (Some h); LWrite 0 (Some h)] in
  map (fun r => match r with Forward h' => h_exts h' | _ => [] end) (own_outs 0 (life_trace linit ops))
    = [[(3, [0; 0])]; [(3, [0; 1])]; [(3, [0; 2])]] /\
  map (fun r => match r with Forward h' => h_exts h' | _ => [] end) (own_outs 1 (life_trace linit ops))
    = [[(5, [0; 0])]; [(5, [0; 1])]].
Proof. vm_compute. split; reflexivity. Qed.
Print Assumptions C15d_numbers_example.

(* Every history of the model passes the lifecycle oracle that is applied to the
   implementation's observations (Check.C15LifeCheck.life_spec): the model has the property
   exactly as the oracle states it. *)
Theorem C15d_model_satisfies_oracle : forall ops, life_spec ops (life_run ops) = 0%nat.
Proof. exact life_model_satisfies_oracle. Qed.
Print Assumptions C15d_model_satisfies_oracle.

(* the per-instance clause of the oracle on the plain sequential model, from any counter *)
Theorem C15d_run_satisfies_seq_spec : forall ops c k, 0 <= c < 4294967296 -> k mod 65536 = c mod 65536 ->
  seq_spec k ops (run c ops) = 0%nat.
Proof. exact run_satisfies_seq_spec. Qed.
Print Assumptions C15d_run_satisfies_seq_spec.

(* Concurrency with several instances: instance i starts at counter c0_i with n_i writer
   threads; a schedule interleaves the atomic steps of the writers of ALL instances with
   arbitrary lifecycle calls.  In every schedule every instance's assigned numbers are its
   own consecutive run c0_i, c0_i+1, ... mod 2^16, and what it emitted plus what its
   writers still hold is a permutation of what it assigned. *)
Theorem C15d_multi_instance_any_interleaving : forall cfg sched i s,
  nth_error (mrun (minit cfg) sched) i = Some s ->
  exists p, nth_error cfg i = Some p /\ consec (fst p) (c_assigned s) /\
    Permutation (c_emitted s ++ held (c_threads s)) (c_assigned s).
Proof. exact multi_instance_consecutive. Qed.
Print Assumptions C15d_multi_instance_any_interleaving.

Example C15d_multi_instance_example :
  map c_assigned (mrun (minit [(65534, 2%nat); (7, 1%nat)])
    [(0, Some 0); (1, Some 0); (0, None); (0, Some 1); (1, Some 0); (0, Some 0); (1, None); (0, Some 0); (1, Some 0)]%nat)
  = [[65534; 65535; 0]; [7; 8]].
Proof. vm_compute. reflexivity. Qed.
Print Assumptions C15d_multi_instance_example.
