(* C02 - No untrusted packet can crash or wedge an interceptor.  PARTIAL: theorems cover the
   index / termination logic of the cores modelled here and in C18 (queue walks); everything
   else (pion/rtp, pion/rtcp parsers, logging, closures) is covered only by the fuzz harness,
   which is testing, not proof. *)
From IV Require Import Base.Word Model.NoCrash Proofs.NoCrashProofs.
From IV Require Model.PriorityQueue Model.JitterBuffer Proofs.JitterBufferProofs.

(* rtpfb TWCC conversion: no chunk list / delta count can make it index out of range *)
Theorem C02_convert_twcc_no_panic : forall cs ndeltas, convert_twcc true cs ndeltas <> Panic.
Proof. exact convert_twcc_no_panic. Qed.
Print Assumptions C02_convert_twcc_no_panic.

Theorem C02_convert_twcc_unfixed_refuted : convert_twcc false [inl (1, 5)] 1 = Panic.
Proof. exact convert_twcc_unfixed_panics. Qed.
Print Assumptions C02_convert_twcc_unfixed_refuted.

(* leaky-bucket pacer: every payload length is either rejected by Write or handed on without a slice panic *)
Theorem C02_leaky_bucket_no_panic : forall paylen, 0 <= paylen -> lb_roundtrip true paylen <> Panic.
Proof. exact lb_no_panic. Qed.
Print Assumptions C02_leaky_bucket_no_panic.

Theorem C02_leaky_bucket_unfixed_refuted : lb_roundtrip false 1461 = Panic.
Proof. exact lb_unfixed_panics. Qed.
Print Assumptions C02_leaky_bucket_unfixed_refuted.

(* jitter-buffer reader never reports more bytes than it was given (given that pion/rtp does not grow a packet when re-marshalling it) *)
Theorem C02_jitterbuffer_reports_at_most_given : forall (sz : Z -> Z) n buflen,
  (forall k, sz k <= k) -> jb_read sz true n buflen <= n.
Proof. exact jb_read_le. Qed.
Print Assumptions C02_jitterbuffer_reports_at_most_given.

Theorem C02_jitterbuffer_unfixed_refuted : jb_read (fun k => k) false 15 1500 = 1500.
Proof. exact jb_read_unfixed_more. Qed.
Print Assumptions C02_jitterbuffer_unfixed_refuted.

(* packetdump receiver: the payload slice is in range when the header was parsed from the bytes actually read *)
Theorem C02_packetdump_slice_in_range : forall hsize i cap, 0 <= hsize <= i -> i <= cap -> pd_slice hsize i cap <> Panic.
Proof. exact pd_slice_ok. Qed.
Print Assumptions C02_packetdump_slice_in_range.

Theorem C02_packetdump_unfixed_refuted : pd_slice 16 12 1500 = Panic.
Proof. exact pd_slice_unfixed_panics. Qed.
Print Assumptions C02_packetdump_unfixed_refuted.

(* jitter-buffer priority queue (pointer-level model of C18): no operation of any history
   dereferences nil or walks for ever - the cycle a duplicate of the queue head used to create
   (finding F18) is the counterexample on the pre-fix code, see C18_unfixed_push_cycle_refuted *)
Theorem C02_jitter_queue_no_panic_no_diverge : forall min ops,
  Forall (fun re => fst re <> JitterBuffer.RPanic /\ fst re <> JitterBuffer.RDiverge) (JitterBuffer.cjb_run min ops).
Proof. exact JitterBufferProofs.cjb_run_good. Qed.
Print Assumptions C02_jitter_queue_no_panic_no_diverge.
