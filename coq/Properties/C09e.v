(* C09, round-5 strengthening - statements only.  Proofs: Proofs/C09StreamsProofs.v.

   Two configuration dimensions the earlier rounds fixed to one value:

   (a) Every local stream of an rtpfb interceptor negotiates the transport-wide-cc header
       extension under an id OF ITS OWN (or not at all); a packet carries any number of
       header-extension elements.  "That packet's sequence number" is the number the packet
       carries under the id negotiated for the stream it is written on.
       Model/RtpfbStreams.v: WBind sid neg / WSend sid exts .. / WRead; [wrun] keeps a table
       of streams next to the unchanged history model.  Spec/RtpfbStreamsSpec.v: [wresolve]
       turns the calls into the writes/reads of C09b's specification using nothing but the list
       of calls made so far ([last_bind]: the latest bind of THAT handle) and the packet's own
       elements ([carried_tcc]).

   (b) SSRCs are 32-bit numbers; a packet tracked by (SSRC, RTP sequence number) is designated
       by feedback for exactly that pair. *)
From IV Require Import Base.Word Model.FbAdapter Model.RtpfbConvert Model.RtpfbHistory Model.RtpfbStreams
  Spec.RtpfbSpec Spec.RtpfbStreamsSpec.
From IV Require Import Proofs.C09StreamsProofs.

(* (a) the interceptor with its table of streams reports exactly what an interceptor reports
   whose writes are already resolved stream by stream ... *)
Theorem C09_streams_run_is_resolved : forall reft32 ops,
  wrun reft32 w_init ops = rrun reft32 h_init (wresolve [] ops).
Proof. exact streams_run_is_resolved. Qed.
Print Assumptions C09_streams_run_is_resolved.

(* ... hence the complete specification of C09b (each sent packet exactly once up to the
   highest acknowledged, in send order, with the latest feedback's status) applies, with every
   packet designated by the number IT carries under ITS stream's id *)
Theorem C09_streams_is_spec : forall reft32 ops,
  Z.of_nat (length ops) < W64 ->
  wrun reft32 w_init ops = rspec_run reft32 [] (wresolve [] ops).
Proof. exact streams_is_spec. Qed.
Print Assumptions C09_streams_is_spec.

(* how a write is resolved depends on the binds of its own stream handle only: binding,
   re-binding or writing on any other stream, before or after, changes nothing *)
Theorem C09_streams_own_binding : forall past past' sid exts ssrc rtpseq size now,
  filter (binds_of sid) past = filter (binds_of sid) past' ->
  wresolve1 past (WSend sid exts ssrc rtpseq size now) = wresolve1 past' (WSend sid exts ssrc rtpseq size now).
Proof. exact resolve_own_stream. Qed.
Print Assumptions C09_streams_own_binding.

(* a packet of a stream bound with id is tracked by the number it carries under id (and by
   (SSRC, seq) when it carries none there); whatever it carries under other ids is irrelevant *)
Theorem C09_streams_number_is_own : forall past sid exts ssrc rtpseq size now id,
  last_bind sid past = Some (Some id) ->
  wresolve1 past (WSend sid exts ssrc rtpseq size now) = [RSend true (carried_tcc id exts) ssrc rtpseq size now].
Proof. exact resolved_number. Qed.
Print Assumptions C09_streams_number_is_own.

Theorem C09_streams_non_twcc : forall past sid exts ssrc rtpseq size now,
  last_bind sid past = Some None ->
  wresolve1 past (WSend sid exts ssrc rtpseq size now) = [RSend false None ssrc rtpseq size now].
Proof. exact resolved_non_twcc. Qed.
Print Assumptions C09_streams_non_twcc.

(* non-vacuity / the shape of seed r5-2: stream 0 negotiated id 5, stream 1 (bound later) id 3;
   a packet of stream 0 carries number 1 under 5 and the bytes 0x00 0x63 under 3; feedback about
   number 99 reports nothing, feedback about number 1 reports that packet *)
Example C09_streams_example :
  wrun (fun _ _ => 0) w_init
    [WBind 0 (Some 5); WBind 1 (Some 3);
     WSend 0 [(5, [0; 1]); (3, [0; 99])] 1111 500 120 5;
     WSend 1 [(3, [0; 2])] 2222 900 70 6;
     WRead 9 [FTw 99 1 1 [SV [1; 0; 0; 0; 0; 0; 0]] [1000]];
     WRead 10 [FTw 1 1 1 [SV [1; 0; 0; 0; 0; 0; 0]] [1000]]]
  = [[]; []; []; [mkPrep 1111 0 500 true 1 120 5 true 65000000 0]].
Proof. vm_compute. reflexivity. Qed.
Print Assumptions C09_streams_example.

(* (b) the packet RFC 8888 feedback for (ssrc, seq) designates after the calls r was sent with
   exactly that SSRC - as an integer, all 32 bits - and that RTP sequence number, and is
   tracked by (SSRC, seq); TWCC feedback designates a packet that carried that number *)
Theorem C09_ccfb_designates_its_ssrc : forall ssrc seq r c,
  latest_cc r ssrc seq = Some c ->
  exists q, send_rec r c = Some q /\ p_ssrc q = ssrc /\ p_rtpseq q = seq /\ p_istwcc q = false.
Proof. exact latest_cc_names_its_key. Qed.
Print Assumptions C09_ccfb_designates_its_ssrc.

Theorem C09_twcc_designates_its_number : forall seq r c,
  latest_tw r seq = Some c ->
  exists q, send_rec r c = Some q /\ p_twseq q = seq /\ p_istwcc q = true.
Proof. exact latest_tw_names_its_key. Qed.
Print Assumptions C09_twcc_designates_its_number.

(* two different (SSRC, seq) pairs - however few bits they differ in - never designate the
   same packet *)
Theorem C09_ccfb_designation_injective : forall r ssrc seq ssrc' seq' c,
  latest_cc r ssrc seq = Some c -> latest_cc r ssrc' seq' = Some c -> ssrc = ssrc' /\ seq = seq'.
Proof. exact latest_cc_injective. Qed.
Print Assumptions C09_ccfb_designation_injective.

(* non-vacuity / the shape of seed r5-1: SSRCs 0x00010001 and 0x00020001, both sequence number 7 *)
Example C09_ccfb_designation_example :
  latest_cc [HAdd 131073 7 false 0 212 6; HAdd 65537 7 false 0 112 5] 65537 7 = Some 0 /\
  latest_cc [HAdd 131073 7 false 0 212 6; HAdd 65537 7 false 0 112 5] 131073 7 = Some 1.
Proof. vm_compute. auto. Qed.
Print Assumptions C09_ccfb_designation_example.

(* The run-time oracle of the c09ws cases (Check/C09ExtCheck.v ws_spec_failures =
   ws_case_codes per case) reports nothing EXACTLY when every write is on a bound handle, the
   feedback is well formed, and the implementation's reports equal the specification applied
   to the calls as the SPECIFICATION resolves them. *)
From IV Require Check.C09ExtCheck Proofs.C09OracleRtpfb.
Theorem C09_ws_oracle_iff : forall c : IV.Check.C09ExtCheck.ws_case,
  let ops := flat_map IV.Check.C09ExtCheck.wexpand (fst c) in
  let rops := wresolve [] ops in
  let outs := map (fun l => IV.Check.C09Check.unflat_rep l (length l)) (snd c) in
  IV.Check.C09ExtCheck.ws_case_codes c = [] <->
  IV.Check.C09ExtCheck.all_bound [] ops = true /\ Forall IV.Proofs.C09OracleRtpfb.wf_rop rops /\
  outs = IV.Check.C09Check.read_outs rops (rspec_run IV.Check.C09Check.reft32 [] rops).
Proof. exact ws_oracle_iff. Qed.
Print Assumptions C09_ws_oracle_iff.
