(* C12 (round-4 strengthening) - the two pacers DRAIN: statements about Model/MemBoundPacers.v,
   proofs in Proofs/MemBoundPacersProofs.v.  Same PARTIAL scope as Properties/C12.v (entry counts of
   the retained containers, not heap bytes).  The queues of both pacers have no admission limit
   (known findings F32/F33, C12_queue_unbounded_refuted): their only bound is relative to the
   workload - what was written and not yet released.  These theorems state WHEN the code releases:
   a tick whose budget covers the queue empties it whatever became of the streams of the queued
   packets, and a load below the configured rate leaves nothing behind. *)
From IV Require Import Base.Word Model.Unwrapper Model.MemBound Model.MemBoundPacers
  Proofs.MemBoundProofs Proofs.MemBoundPacersProofs.
Open Scope Z_scope.

(* gcc.LeakyBucketPacer, every history of AddStream / RemoveStream / Write / tick / Close: a tick of
   the open pacer whose budget covers the queued packets (1472 = header + maxPayloadLen bytes each)
   empties the queue - packets whose SSRC has no writer (stream removed, never added) are dropped
   and do not stop the loop, packets whose writer fails are dropped as well *)
Theorem C12_leakybucket_streams_drain : forall ops budget,
  let st := fold_left lbs_step ops lbs_init in
  lb_closed st = false -> 1472 * zlen (lb_q st) <= budget -> lb_q (lbs_step st (LbRelease budget)) = [].
Proof. exact lbs_release_drains. Qed.
Print Assumptions C12_leakybucket_streams_drain.
Example C12_leakybucket_streams_drain_nonvacuous :
  let ops := [LbAdd 1 1; LbAdd 2 1; LbEnq 1 100; LbEnq 2 100; LbRemove 1; LbEnq 1 100; LbEnq 3 50; LbEnq 2 100] in
  let st := fold_left lbs_step ops lbs_init in
  lb_closed st = false /\ zlen (lb_q st) = 5 /\ lbs_sizes (lbs_step st (LbRelease 7360)) = [0; 2].
Proof. vm_compute. repeat split. Qed.
Print Assumptions C12_leakybucket_streams_drain_nonvacuous.

(* after RemoveStream (cc.Interceptor.UnbindLocalStream) and a covering tick nothing of the stream
   is held: no writer, no queued packet ("after Unbind the per-stream memory becomes collectable") *)
Theorem C12_leakybucket_removed_stream_released : forall ops s budget,
  let st := fold_left lbs_step ops lbs_init in
  lb_closed st = false -> 1472 * zlen (lb_q st) <= budget ->
  let st' := lbs_step (lbs_step st (LbRemove s)) (LbRelease budget) in
  lb_q st' = [] /\ aget s (lb_w st') = None.
Proof. exact lbs_removed_released. Qed.
Print Assumptions C12_leakybucket_removed_stream_released.

(* relative to the workload: never more queued packets than were there plus packets written *)
Theorem C12_leakybucket_streams_bounded_by_writes : forall ops st,
  zlen (lb_q (fold_left lbs_step ops st)) <= zlen (lb_q st) + lbs_enqs ops.
Proof. exact lbs_len_le_enqs. Qed.
Print Assumptions C12_leakybucket_streams_bounded_by_writes.

(* REFUTED for the loop that leaves the head in the queue when it has no writer (lb_drain_block,
   not the code): one packet of an SSRC without writer, then n times (one packet of the bound stream,
   one tick with ANY budget b) - nothing ever leaves, n + 1 packets are held.  The code itself on
   the same history holds nothing after every tick. *)
Theorem C12_leakybucket_headblock_refuted : forall b n,
  zlen (lb_q (fold_left lbs_step_block (LbAdd 2 1 :: LbEnq 1 100 :: lbs_block_hist b n) lbs_init)) = Z.of_nat n + 1.
Proof. exact lbs_headblock_grows. Qed.
Print Assumptions C12_leakybucket_headblock_refuted.
Theorem C12_leakybucket_no_headblock : forall b n, 224 <= b ->
  lb_q (fold_left lbs_step (LbAdd 2 1 :: LbEnq 1 100 :: lbs_block_hist b (S n)) lbs_init) = [].
Proof. exact lbs_code_no_headblock. Qed.
Print Assumptions C12_leakybucket_no_headblock.

(* pacing interceptor: the bucket depth handed to the limiter with a rate (burst(), used by
   NewInterceptor and by setRate) holds at least one interval's worth of that rate and at least
   12000 bits, for intervals of 1 .. 1000 whole milliseconds *)
Theorem C12_pacing_depth_follows_rate : forall rate iv, 1 <= iv <= 1000 -> 0 <= rate ->
  12000 <= pc_burst rate iv /\ rate * iv / 1000 <= pc_burst rate iv.
Proof. exact pc_burst_ge. Qed.
Print Assumptions C12_pacing_depth_follows_rate.

(* release loop of the pacing interceptor on a token bucket whose depth is at least R (the bits one
   interval adds): for EVERY arrival history that brings less than R bits per tick - a load below
   the configured rate - the backlog is empty after every tick (ticks one interval apart) *)
Theorem C12_pacing_below_rate_drains : forall R depth ticks t0, R <= depth -> 0 <= t0 ->
  Forall (fun a => Forall (fun b => 0 <= b) a /\ zsum a < R) ticks ->
  let st := fold_left (pc_tick R depth) ticks (t0, []) in snd st = [] /\ 0 <= fst st.
Proof. intros R depth ticks t0 Hd. exact (pc_below_rate_empty R depth Hd ticks t0). Qed.
Print Assumptions C12_pacing_below_rate_drains.
Example C12_pacing_below_rate_nonvacuous :
  snd (fold_left (pc_tick 500000 500000) [[9600; 9600; 9600]; []; [9600; 9600]] (0, [])) = [].
Proof. vm_compute. reflexivity. Qed.
Print Assumptions C12_pacing_below_rate_nonvacuous.

(* PARTIAL (backlog): packets below 1500 bytes, depth >= 12000 and R >= 12000 bits per tick: at
   least one packet leaves per tick, a backlog of n packets is gone after n ticks without arrivals.
   Not stated: the sharper bound ceil(bits / (R - 12000)) ticks; packets of 1500 bytes and more at
   depth 12000 are never released (F23, known finding of C17/C02, outside these hypotheses). *)
Theorem C12_pacing_backlog_drains_partial : forall R depth n tokens q, 12000 <= R -> 12000 <= depth ->
  0 <= tokens -> Forall (fun b => 0 <= b < 12000) q -> (length q <= n)%nat ->
  snd (fold_left (pc_tick R depth) (repeat [] n) (tokens, q)) = [].
Proof. intros R depth n tokens q HR Hd. exact (pc_backlog_drains R depth HR Hd n tokens q). Qed.
Print Assumptions C12_pacing_backlog_drains_partial.

(* REFUTED for a bucket whose depth stays at the 12000-bit floor while the rate was raised to R bits
   per tick (depth not following SetRate; not the code): two 1200-byte packets per tick are a load
   below the rate (19200 < R), one packet leaves per tick, the backlog is n after n ticks *)
Theorem C12_pacing_stale_depth_refuted : forall R n, 19200 < R ->
  zlen (snd (fold_left (pc_tick R 12000) (repeat [9600; 9600] (S n)) (12000, []))) = Z.of_nat (S n).
Proof. exact pc_stale_depth_grows. Qed.
Print Assumptions C12_pacing_stale_depth_refuted.
