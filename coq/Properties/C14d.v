(* C14, round-4 strengthening.  Statements only; proofs are in Proofs/FlexfecFailProofs.v.

   Vocabulary (Model/FlexfecFail.v).  The writer returned by FecInterceptor.BindLocalStream hands packets
   to the NEXT writer of the chain, and that writer may fail (full socket buffer, closed transport, SRTP
   error ...).  A history is a list of Writes, each with [dw : nat -> bool]: [dw j = true] iff the j-th
   call of the next writer made during this Write returns an error - ANY function, a different one for
   every Write.  [if_run pol s ws] gives for each Write the calls it made to the next writer, in order,
   each with "returned an error" ([attempt]); [errs_of att] = the positions of the errors joined into the
   error the Write returns; [handed] forgets which calls failed; [delivered] = the packets of the calls
   that did not fail, i.e. what the receiver gets.  [pol] is what the closure does after an error:
   [collect_all] = the code (collect it, go on); [return_on_media_error] = `return result, err` right
   after the media packet's write; [stop_on_fec_error] = leave the repair-packet loop at the first error.
   A packet handed to a failing writer is a packet the receiver does not get - the loss the repair
   packets of its batch are there for; so the property's clauses (every media packet protected, repair
   sequence numbers increasing by one, media first and unmodified) are about the calls MADE.
   [i_run2] is the value-level interceptor of Model/Flexfec2.v (a next writer that never fails), to which
   C14_interceptor_history_total, C14_interceptor_batch_any_n and, batch by batch,
   C14_recover_single_loss_any_n / C14_every_packet_covered_any_n apply. *)
From IV Require Import Base.Word Model.Flexfec Model.Flexfec2 Model.FlexfecFail Spec.FlexfecSpec
  Proofs.FlexfecFailProofs.

(* every history of Writes, every configuration, every behaviour of the next writer: the calls made to
   the next writer are those of the interceptor over a writer that never fails - no failure of a media
   packet's write or of a repair packet's write suppresses, reorders or changes any other packet *)
Theorem C14_failing_writer_same_calls : forall ws s,
  map handed (if_run collect_all s ws) = i_run2 s (map fst ws).
Proof. exact if_run_collect. Qed.
Print Assumptions C14_failing_writer_same_calls.

(* the same, spelled out per Write: no Write panics; the written packet is handed on first and unmodified,
   only repair packets follow; call j got the answer [dw j]; and the error returned to the caller wraps
   the error of call j iff call j failed (nil iff none did) *)
Theorem C14_failing_writer_history : forall ws s,
  Forall2 (fun (pw : pkt * dwf) r => exists rs att,
             r = Ok att /\ map fst att = OMedia (fst pw) :: map ORepair rs /\
             (forall j d, (j < length att)%nat -> snd (nth j att d) = snd pw j) /\
             (forall j, In j (errs_of att) <-> (j < length att)%nat /\ snd pw j = true))
          ws (if_run collect_all s ws).
Proof. exact if_run_history. Qed.
Print Assumptions C14_failing_writer_history.

(* the Write that completes a batch hands on every repair packet EncodeFec produced for it, whatever the
   next writer answers - in particular when it fails on the media packet itself *)
Theorem C14_failing_writer_batch : forall s p dw,
  list_Z_eqb (ssrc_bytes p) (i_ssrc s) = true -> zlen (i_buf s ++ [p]) = i_nm s ->
  handed (snd (if_write collect_all s p dw)) =
    match snd (encode_fec2 (i_enc s) (i_buf s ++ [p]) (i_nf s)) with
    | Panic => Panic
    | Ok None => Ok [OMedia p]
    | Ok (Some rs) => Ok (OMedia p :: map ORepair rs)
    end.
Proof. exact if_write_batch. Qed.
Print Assumptions C14_failing_writer_batch.

(* non-vacuity of the hypotheses of C14_failing_writer_batch: the third Write of fail_ws *)
Example C14_failing_writer_batch_example :
  let s := fst (if_write collect_all (fst (if_write collect_all fail_s0 (nth 0 fail_batch1 []) dw_ok))
                         (nth 1 fail_batch1 []) dw_ok) in
  list_Z_eqb (ssrc_bytes (nth 2 fail_batch1 [])) (i_ssrc s) = true /\
  zlen (i_buf s ++ [nth 2 fail_batch1 []]) = i_nm s.
Proof. exact failing_writer_batch_example. Qed.
Print Assumptions C14_failing_writer_batch_example.

(* whatever the error policy, the state after a Write is the one of the never-failing chain: the batch
   accumulator is reset and the repair sequence numbers are consumed before the first call *)
Theorem C14_failing_writer_state : forall pol s p dw,
  fst (if_write pol s p dw) = fst (i_write2 s p).
Proof. exact if_write_state. Qed.
Print Assumptions C14_failing_writer_state.

(* `return result, err` after the media packet's write is refuted: 3 media / 1 FEC across 65535 -> 0, the
   next writer fails on the packet that completes the first batch and on nothing else.  Nothing but that
   packet is handed on, the receiver sees repair sequence number 1001 and never 1000; the code hands on
   the repair packet, which names the three packets and from which (with the two packets that arrived) the
   receiver rebuilds the packet the next writer dropped; 1000 then 1001 arrive *)
Theorem C14_return_on_media_error_refuted :
  nth 2 (if_run return_on_media_error fail_s0 fail_ws) Panic = Ok [(OMedia (nth 2 fail_batch1 []), true)] /\
  repair_sns (delivered (if_run return_on_media_error fail_s0 fail_ws)) = [1001] /\
  (exists r h, nth 2 (if_run collect_all fail_s0 fail_ws) Panic =
                 Ok [(OMedia (nth 2 fail_batch1 []), true); (ORepair r, false)] /\
               parse03 (r_payload r) = Some h /\ f_pos h = [0; 1; 2] /\
               recovers fail_batch1 (r_payload r) h 2) /\
  repair_sns (delivered (if_run collect_all fail_s0 fail_ws)) = [1000; 1001].
Proof. exact return_on_media_error_refuted. Qed.
Print Assumptions C14_return_on_media_error_refuted.

(* leaving the repair-packet loop at the first failed write is refuted: 2 media / 2 FEC, the next writer
   fails on the first repair packet; the second one - the only one naming packet 1 - is never handed on *)
Theorem C14_stop_on_fec_error_refuted :
  (exists r0 h0, nth 1 (if_run stop_on_fec_error fail_s1 fail_ws1) Panic =
                   Ok [(OMedia (fmp 8 [10; 11]), false); (ORepair r0, true)] /\
                 parse03 (r_payload r0) = Some h0 /\ f_pos h0 = [0]) /\
  (exists r0 r1 h1, nth 1 (if_run collect_all fail_s1 fail_ws1) Panic =
                   Ok [(OMedia (fmp 8 [10; 11]), false); (ORepair r0, true); (ORepair r1, false)] /\
                 parse03 (r_payload r1) = Some h1 /\ f_pos h1 = [1] /\
                 recovers (map fst fail_ws1) (r_payload r1) h1 1).
Proof. exact stop_on_fec_error_refuted. Qed.
Print Assumptions C14_stop_on_fec_error_refuted.
