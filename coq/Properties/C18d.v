(* C18 (round-4 strengthening) - Jitter buffer emits pushed packets in sequence
   order, at most once: LONG histories and LARGE minimum-start counts.
   Statements only; proofs are in Proofs/FastQueueProofs.v and
   Proofs/JitterBufferLong.v.

   Why this file exists.  The property quantifies over all histories and all
   minimum-start counts.  Two corners were proved (Properties/C18.v, C18b.v: no
   bound on the history, any 0 <= min < 2^16) but never EXERCISED against the
   code, because the pointer-level model cannot be evaluated there:
     - 2^16 and more packets buffered at once, where PriorityQueue.length (uint16)
       wraps and anything driven by that counter instead of the list goes wrong;
     - minimum-start counts above the buffer's overflow length (100), up to 65535.
   The correspondence check now runs such histories (sets c18jbl*, c18pql;
   Check/C18dCheck.v) against a third implementation of the queue interface,
   the "finger queue" of Model/FastQueue.v, which keeps the uint16 counter as a
   cached field exactly like the Go code, and against the oracle of
   Check/C18Check.v evaluated with the buffered count carried along.  Sections 1-3
   tie those two evaluation devices to the objects of Properties/C18.v; sections
   4-5 state the two clauses of the property that the missed changes broke,
   directly over the outputs of the pointer-level model.

   Vocabulary.  [fq] finger queue: [fq_list f] the ordered list it stands for,
   [fn f] its cached uint16 length; [RF f L]: f stands for the sorted list L and
   [fn f = |L| mod 2^16].  [fjb_run min ops] outputs (result, events) of the
   jitter buffer over the finger queue; [cjb_run] over the pointer-level queue;
   [ajb_run] over the plain list.  [fq_run]/[pq_run]/[aq_run]: the exported
   queue driven directly.  [expand_ops]/[expand_runs]: expansion of a run-length
   compressed history / output list.  [jbl_model_ok], [jbl_spec_code]: what the
   long checkers compute for one case.  [push_ops ps]: the history that pushes
   the (sequence number, timestamp) pairs ps in that order.  [is_queryb o]: o is
   Pop, PopAtSequence, PopAtTimestamp, Peek or PeekAtSequence; [is_pushb o]: o
   is Push. *)
From IV Require Import Base.Word Model.PriorityQueue Model.JitterBuffer Model.FastQueue
  Proofs.PriorityQueueProofs Proofs.JitterBufferProofs Proofs.PriorityQueueSorted
  Check.C18Check Check.C18dCheck Proofs.FastQueueProofs Proofs.JitterBufferLong.

(* ================= 1. the finger queue refines the ordered list ================= *)
(* Push inserts where the list specification inserts (before the first element
   with a priority >= the new one) and keeps the list sorted; Find, PopAt and
   PopAtTimestamp answer as the list does and on success the remainder is
   represented; Clear leaves the empty list whatever the counter was; the cached
   counter is the list length modulo 2^16 throughout (q.length++ / q.length-- /
   q.length = 0 exactly where the Go code has them) *)
Theorem C18d_fq_refines_list : forall f L, RF f L ->
  (forall v prio, exists f', fq_push f v prio = Ok f' /\ RF f' (aq_push L v prio)) /\
  (forall sq, fq_find f sq = aq_find L sq) /\
  (forall k, match aq_popat L k with
             | Ok (w, t) => exists f', fq_popat f k = Ok (w, f') /\ RF f' t
             | Err e => fq_popat f k = Err e
             | Panic => fq_popat f k = Panic
             | Diverge => fq_popat f k = Diverge
             end) /\
  (exists f', fq_clear f = Ok f' /\ RF f' []) /\
  fn f = u16 (Z.of_nat (length L)).
Proof. exact RF_all. Qed.
Print Assumptions C18d_fq_refines_list.

(* ================= 2. same outputs on every history ================= *)
(* the jitter buffer over the finger queue = over the pointer-level queue, for
   every minimum count and every history (no bound on length or buffered count) *)
Theorem C18d_fast_run_is_pointer_run : forall min ops, fjb_run min ops = cjb_run min ops.
Proof. exact fjb_run_eq_cjb_run. Qed.
Print Assumptions C18d_fast_run_is_pointer_run.

(* the exported queue driven directly: finger queue = ordered-list specification
   = pointer-level model *)
Theorem C18d_fast_queue_run_is_list_run : forall ops,
  fq_run fq_new 0 ops = aq_run [] 0 ops /\ fq_run fq_new 0 ops = pq_run pq_new 0 ops.
Proof. exact fq_run_eq_both. Qed.
Print Assumptions C18d_fast_queue_run_is_list_run.

(* ================= 3. the long checkers ================= *)
(* the oracle evaluated with the buffered count carried along is the oracle of
   Check/C18Check.v on the expanded case *)
Theorem C18d_long_oracle_is_oracle : forall min lops louts,
  jbl_spec_code (min, lops, louts) = jb_spec_code (min, expand_ops lops, expand_runs louts).
Proof. exact jbl_spec_code_eq. Qed.
Print Assumptions C18d_long_oracle_is_oracle.

(* a long case whose recorded outputs are the model's outputs passes both long
   checkers: an alarm of either means the implementation differs from the model
   or breaks the specification *)
Theorem C18d_long_model_accepted : forall min lops louts, 0 <= min < 65536 ->
  expand_runs louts = fjb_run min (expand_ops lops) ->
  jbl_model_ok (min, lops, louts) = true /\ jbl_spec_code (min, lops, louts) = 0%nat.
Proof. exact long_model_accepted. Qed.
Print Assumptions C18d_long_model_accepted.

(* ================= 4. after Clear nothing can be returned ================= *)
(* whatever the history before the Clear - however many packets it buffered, the
   uint16 counter may have wrapped any number of times - and whatever calls other
   than Push follow the Clear, every pop, peek and find then fails *)
Theorem C18d_after_clear_every_query_fails : forall min ops reset qs o,
  Forall (fun o => is_pushb o = false) qs -> is_queryb o = true ->
  exists e ev,
    nth_error (cjb_run min (ops ++ OClear reset :: qs ++ [o])) (length ops + 1 + length qs) = Some (RErr e, ev).
Proof. exact after_clear_every_query_fails. Qed.
Print Assumptions C18d_after_clear_every_query_fails.

(* non-vacuity, at the wrap: 2^16 packets buffered, the length counter reads 0
   (Peek answers ErrBufferUnderrun), the head is found by PeekAtSequence; after
   Clear it is not, and Pop fails *)
Example C18d_example_long :
  let ops := expand_ops [LPushRun 65536 65535 65535 0 0; LOne (OPeek true); LOne (OPeekAtSeq 65535);
                         LOne (OClear false); LOne (OPeekAtSeq 65535); LOne OPop] in
  skipn (Z.to_nat 65536) (cjb_run 1 ops) =
  [(RErr ErrBufferUnderrun, []); (RPkt 0 65535 0, []); (RUnit, []); (RErr ErrNotFound, []);
   (RErr ErrInvalidOperation, [EvBufferUnderflow])].
Proof. exact long_example. Qed.
Print Assumptions C18d_example_long.

(* ================= 5. the minimum-start count is honoured ================= *)
(* for EVERY uint16 minimum - no relation to the overflow length or any other
   threshold of the buffer: while fewer than min packets have been pushed every
   pop is refused ... *)
Theorem C18d_refused_below_min : forall min ps o, 0 <= min < 65536 ->
  is_queryb o = true -> (forall ph, o <> OPeek ph) -> (forall sq, o <> OPeekAtSeq sq) ->
  Z.of_nat (length ps) < min ->
  exists ev, nth_error (cjb_run min (push_ops ps ++ [o])) (length ps) = Some (RErr ErrPopWhileBuffering, ev).
Proof. exact refused_below_min. Qed.
Print Assumptions C18d_refused_below_min.

(* ... and as soon as min (and at least one) packets have been pushed, in any
   order, with any duplicates, Pop() returns a packet carrying the number of the
   first packet buffered *)
Theorem C18d_plays_from_first_at_min : forall min sq0 ts0 ps, 0 <= min < 65536 ->
  min <= 1 + Z.of_nat (length ps) ->
  exists id ts ev,
    nth_error (cjb_run min (push_ops ((sq0, ts0) :: ps) ++ [OPop])) (S (length ps)) = Some (RPkt id sq0 ts, ev).
Proof. exact plays_from_first_at_min. Qed.
Print Assumptions C18d_plays_from_first_at_min.

(* non-vacuity: minimum 150 (> overflow length 100), wrap-around in the run:
   refused with 149 buffered, the first packet (65500) with 150 *)
Example C18d_example_min :
  let ps := map (fun k => (u16 (65500 + Z.of_nat k), Z.of_nat k)) (seq 0 149) in
  nth_error (cjb_run 150 (push_ops ps ++ [OPop])) 149 = Some (RErr ErrPopWhileBuffering, []) /\
  nth_error (cjb_run 150 (push_ops (ps ++ [(113, 149)]) ++ [OPop])) 150 = Some (RPkt 0 65500 0, []).
Proof. exact min_example. Qed.
Print Assumptions C18d_example_min.
