(* Machine words as Z with explicit wrap-around.  uintN values are Z in
   [0, 2^N); every Go arithmetic site that can wrap is written with an
   explicit [mod]. *)
From Coq Require Export ZArith List Bool Lia.
From Coq Require Import ZifyBool.
Export ListNotations.
Open Scope Z_scope.

Ltac Zify.zify_post_hook ::= Z.div_mod_to_equations.

Definition W16 : Z := 65536.
Definition H16 : Z := 32768.
Definition W32 : Z := 4294967296.
Definition W64 : Z := 18446744073709551616.

Definition u8  (x : Z) : Z := x mod 256.
Definition u16 (x : Z) : Z := x mod 65536.
Definition u32 (x : Z) : Z := x mod 4294967296.
Definition u64 (x : Z) : Z := x mod 18446744073709551616.

Definition add16 (a b : Z) : Z := (a + b) mod 65536.
Definition sub16 (a b : Z) : Z := (a - b) mod 65536.
Definition add32 (a b : Z) : Z := (a + b) mod 4294967296.
Definition sub32 (a b : Z) : Z := (a - b) mod 4294967296.

(* Go's int16(x)/int32(x) of an unsigned value: two's-complement reading. *)
Definition s16 (x : Z) : Z := let y := x mod 65536 in if y <? 32768 then y else y - 65536.
Definition s32 (x : Z) : Z := let y := x mod 4294967296 in if y <? 2147483648 then y else y - 4294967296.

(* signed distance from b to a on the 16-bit circle, in [-2^15, 2^15) *)
Definition sdist16 (a b : Z) : Z := s16 (a - b).

Definition is_u16 (x : Z) : bool := (0 <=? x) && (x <? 65536).
Definition is_u32 (x : Z) : bool := (0 <=? x) && (x <? 4294967296).

Lemma u16_range x : 0 <= u16 x < 65536.
Proof. unfold u16; lia. Qed.
Lemma u32_range x : 0 <= u32 x < 4294967296.
Proof. unfold u32; lia. Qed.
Lemma sub16_range a b : 0 <= sub16 a b < 65536.
Proof. unfold sub16; lia. Qed.
Lemma add16_range a b : 0 <= add16 a b < 65536.
Proof. unfold add16; lia. Qed.
Lemma s16_range x : -32768 <= s16 x < 32768.
Proof. unfold s16; cbv zeta; destruct (_ <? _) eqn:?; lia. Qed.
Lemma s16_congr x : (s16 x - x) mod 65536 = 0.
Proof. unfold s16; cbv zeta; destruct (_ <? _) eqn:?; lia. Qed.
Lemma s32_range x : -2147483648 <= s32 x < 2147483648.
Proof. unfold s32; cbv zeta; destruct (_ <? _) eqn:?; lia. Qed.
Lemma u16_idem x : 0 <= x < 65536 -> u16 x = x.
Proof. unfold u16; lia. Qed.
Lemma u32_idem x : 0 <= x < 4294967296 -> u32 x = x.
Proof. unfold u32; lia. Qed.

(* generic list helpers used by several models *)
Fixpoint zrange (a : Z) (n : nat) : list Z :=
  match n with O => [] | S k => a :: zrange (a + 1) k end.

Lemma zrange_length a n : length (zrange a n) = n.
Proof. revert a; induction n as [|n IH]; intros a; simpl; auto. Qed.

Lemma zrange_In a n x : In x (zrange a n) <-> a <= x < a + Z.of_nat n.
Proof.
  revert a; induction n as [|n IH]; intros a; simpl.
  - lia.
  - rewrite IH. lia.
Qed.

Fixpoint list_eqb {A} (eqb : A -> A -> bool) (l1 l2 : list A) : bool :=
  match l1, l2 with
  | [], [] => true
  | x :: xs, y :: ys => eqb x y && list_eqb eqb xs ys
  | _, _ => false
  end.

Lemma list_eqb_Z_eq l1 l2 : list_eqb Z.eqb l1 l2 = true <-> l1 = l2.
Proof.
  revert l2; induction l1 as [|x xs IH]; intros [|y ys]; simpl; split; intros H;
    try discriminate; auto.
  - apply andb_true_iff in H as [H1 H2]. apply Z.eqb_eq in H1. apply IH in H2. congruence.
  - inversion H; subst. rewrite Z.eqb_refl. simpl. apply IH. reflexivity.
Qed.

Definition option_eqb {A} (eqb : A -> A -> bool) (a b : option A) : bool :=
  match a, b with
  | None, None => true
  | Some x, Some y => eqb x y
  | _, _ => false
  end.

(* indices (0-based) of the elements satisfying p *)
Fixpoint find_idx {A} (p : A -> bool) (l : list A) (i : nat) : list nat :=
  match l with
  | [] => []
  | x :: xs => if p x then i :: find_idx p xs (S i) else find_idx p xs (S i)
  end.
