(* Go float64 operations on Coq's primitive binary64 floats (evaluated by
   vm_compute with hardware IEEE arithmetic).  Conversions are written out:
   int -> float is correctly rounded ([of_uint63], inputs < 2^63),
   float -> int truncates toward zero (exact, via the spec_float view). *)
From Coq Require Import ZArith Bool Floats Uint63.
Open Scope bool_scope.
Open Scope Z_scope.

Definition f64_of_Z_pos (x : Z) : float := PrimFloat.of_uint63 (Uint63.of_Z x).

(* Go float64(int64): correctly rounded; for |x| < 2^63 via the magnitude *)
Definition f64_of_Z (x : Z) : float :=
  if x <? 0 then PrimFloat.opp (f64_of_Z_pos (- x)) else f64_of_Z_pos x.

(* truncation toward zero of a finite float; 0 for nan/inf (callers guard) *)
Definition f64_trunc (f : float) : Z :=
  match Prim2SF f with
  | S754_finite s m e =>
      let mag := if (0 <=? e) then Z.pos m * 2 ^ e else Z.pos m / 2 ^ (- e) in
      if s then - mag else mag
  | _ => 0
  end.

Definition f64_is_finite (f : float) : bool :=
  match Prim2SF f with S754_finite _ _ _ | S754_zero _ => true | _ => false end.

(* Go on amd64: uint32(f) for f outside [0, 2^32) is implementation-defined;
   CVTTSD2SQ then truncation to 32 bits: trunc to int64 (0x8000.. when out of
   int64 range) then mod 2^32. *)
Definition f64_to_u32 (f : float) : Z :=
  let t := f64_trunc f in
  if (t <? -9223372036854775808) || (9223372036854775807 <? t) || negb (f64_is_finite f)
  then 0 (* 0x8000000000000000 mod 2^32 *) else t mod 4294967296.

Definition f64_to_i64 (f : float) : Z :=
  let t := f64_trunc f in
  if (t <? -9223372036854775808) || (9223372036854775807 <? t) || negb (f64_is_finite f)
  then -9223372036854775808 else t.
