(* (index, failure code) lists for specification oracles.  Pairs are Z so that
   they print without %nat inside Z_scope (the driver parses "(i, c)"). *)
From IV Require Import Base.Word.

Fixpoint find_codes {A} (f : A -> nat) (l : list A) (i : Z) : list (Z * Z) :=
  match l with
  | [] => []
  | x :: xs => match f x with O => find_codes f xs (i + 1) | c => (i, Z.of_nat c) :: find_codes f xs (i + 1) end
  end.
