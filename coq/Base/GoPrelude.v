(* Static prelude of the files that tools/go2coq generates (coq/Generated/GoCoresCxx.v): how Go
   slices / arrays of integers and counted loops are rendered.  Hand-written and committed; the
   generated files contain translated functions only.  See design-notes/go2coq.md. *)
From Coq Require Import ZArith Bool List.
Open Scope Z_scope.
Open Scope bool_scope.

(* every generated definition g_f is registered with `Hint Unfold g_f : gcores`, so that the tie proofs can
   unfold generated helpers whose names they do not know (autounfold with gcores) *)
Create HintDb gcores.

(* slices and arrays of integers are lists: s[i], s[i] = v, len(s), s[:n], make([]T, n) *)
Definition g_idx (l : list Z) (i : Z) : Z := nth (Z.to_nat i) l 0.
Fixpoint g_upd_nat (l : list Z) (n : nat) (v : Z) : list Z :=
  match l, n with
  | nil, _ => nil
  | _ :: t, O => v :: t
  | x :: t, S k => x :: g_upd_nat t k v
  end.
Definition g_upd (l : list Z) (i : Z) (v : Z) : list Z := g_upd_nat l (Z.to_nat i) v.
Definition g_len (l : list Z) : Z := Z.of_nat (length l).
Definition g_take (l : list Z) (n : Z) : list Z := firstn (Z.to_nat n) l.
Definition g_zeros (n : Z) : list Z := repeat 0 (Z.to_nat n).

(* counted loops: the condition is evaluated before every trip; fuel bounds the trips
   (tools/go2coq/loop.go says for which loop shapes such a bound exists) *)
Fixpoint g_while {St : Type} (fuel : nat) (c : St -> bool) (f : St -> St) (s : St) : St :=
  match fuel with
  | O => s
  | S m => if c s then g_while m c f (f s) else s
  end.
(* cs / fs: the condition / the body does not panic in that state *)
Fixpoint g_while_safe {St : Type} (fuel : nat) (cs c fs : St -> bool) (f : St -> St) (s : St) : bool :=
  match fuel with
  | O => cs s
  | S m => cs s && (if c s then fs s && g_while_safe m cs c fs f (f s) else true)
  end.
