(* Finite maps with Z keys as key-sorted association lists (Go maps /
   sync.Map keyed by SSRC), with the lemmas the stream-table theorems need. *)
From IV Require Import Base.Word.

Section KMap.
  Variable V : Type.
  Definition kmap := list (Z * V).

  Fixpoint kput (k : Z) (v : V) (t : kmap) : kmap :=
    match t with
    | [] => [(k, v)]
    | (k', v') :: tl =>
        if k <? k' then (k, v) :: t
        else if k =? k' then (k, v) :: tl
        else (k', v') :: kput k v tl
    end.

  Fixpoint kdel (k : Z) (t : kmap) : kmap :=
    match t with
    | [] => []
    | (k', v') :: tl => if k =? k' then tl else (k', v') :: kdel k tl
    end.

  Fixpoint kget (k : Z) (t : kmap) : option V :=
    match t with
    | [] => None
    | (k', v') :: tl => if k =? k' then Some v' else kget k tl
    end.

  Lemma kget_put_same k v t : kget k (kput k v t) = Some v.
  Proof.
    induction t as [|[k' v'] tl IH]; simpl.
    - rewrite Z.eqb_refl. reflexivity.
    - destruct (k <? k') eqn:A; simpl.
      + rewrite Z.eqb_refl. reflexivity.
      + destruct (k =? k') eqn:B; simpl.
        * rewrite Z.eqb_refl. reflexivity.
        * rewrite B. exact IH.
  Qed.

  Lemma kget_put_other k k0 v t : k0 <> k -> kget k0 (kput k v t) = kget k0 t.
  Proof.
    intros Hn. induction t as [|[k' v'] tl IH]; simpl.
    - destruct (k0 =? k) eqn:E; [lia|reflexivity].
    - destruct (k <? k') eqn:A; simpl.
      + destruct (k0 =? k) eqn:E; [lia|reflexivity].
      + destruct (k =? k') eqn:B; simpl.
        * destruct (k0 =? k) eqn:E; [lia|]. destruct (k0 =? k') eqn:F; [lia|reflexivity].
        * destruct (k0 =? k'); [reflexivity|exact IH].
  Qed.

  (* keys strictly increasing *)
  Fixpoint ksorted (t : kmap) : Prop :=
    match t with
    | [] => True
    | (k, _) :: tl => (forall e, In e tl -> k < fst e) /\ ksorted tl
    end.

  Lemma kput_In k v t e : In e (kput k v t) -> e = (k, v) \/ In e t.
  Proof.
    induction t as [|[k' v'] tl IH]; simpl.
    - intros [H|[]]; auto.
    - destruct (k <? k'); simpl; [intros [H|H]; auto|].
      destruct (k =? k'); simpl; [intros [H|H]; auto|].
      intros [H|H]; auto. destruct (IH H); auto.
  Qed.

  Lemma ksorted_put k v t : ksorted t -> ksorted (kput k v t).
  Proof.
    induction t as [|[k' v'] tl IH]; simpl; intros Hs.
    - split; [intros e []|exact I].
    - destruct Hs as [Hlt Hs]. destruct (k <? k') eqn:A; simpl.
      + split; [|split; assumption]. intros e [He|He]; [subst e; simpl; lia|].
        specialize (Hlt e He). lia.
      + destruct (k =? k') eqn:B; simpl.
        * split; [|assumption]. intros e He. specialize (Hlt e He). lia.
        * split; [|apply IH; assumption]. intros e He.
          destruct (kput_In k v tl e He) as [->|Hin]; [simpl; lia|apply Hlt; assumption].
  Qed.

  Lemma kdel_In k t e : In e (kdel k t) -> In e t.
  Proof.
    induction t as [|[k' v'] tl IH]; simpl; auto.
    destruct (k =? k'); simpl; auto. intros [H|H]; auto.
  Qed.

  Lemma ksorted_del k t : ksorted t -> ksorted (kdel k t).
  Proof.
    induction t as [|[k' v'] tl IH]; simpl; auto. intros [Hlt Hs].
    destruct (k =? k'); simpl; auto. split; [|apply IH; assumption].
    intros e He. apply Hlt. eapply kdel_In; eassumption.
  Qed.

  Lemma kget_del_same k t : ksorted t -> kget k (kdel k t) = None.
  Proof.
    induction t as [|[k' v'] tl IH]; simpl; auto. intros [Hlt Hs].
    destruct (k =? k') eqn:A; simpl.
    - (* all later keys are larger than k *)
      clear IH. induction tl as [|[k2 v2] tl2 IH2]; simpl; auto.
      assert (k' < k2) by (apply (Hlt (k2, v2)); simpl; auto).
      destruct (k =? k2) eqn:B; [lia|]. apply IH2.
      + intros e He. apply Hlt. simpl; auto.
      + destruct Hs; assumption.
    - rewrite A. apply IH; assumption.
  Qed.

  Lemma kget_del_other k k0 t : k0 <> k -> kget k0 (kdel k t) = kget k0 t.
  Proof.
    intros Hn. induction t as [|[k' v'] tl IH]; simpl; auto.
    destruct (k =? k') eqn:A; simpl.
    - destruct (k0 =? k') eqn:B; [lia|reflexivity].
    - destruct (k0 =? k'); [reflexivity|exact IH].
  Qed.

  (* on a sorted table membership is lookup *)
  Lemma kget_In k v t : ksorted t -> (In (k, v) t <-> kget k t = Some v).
  Proof.
    induction t as [|[k' v'] tl IH]; simpl.
    - intros _. split; [intros []|discriminate].
    - intros [Hlt Hs]. destruct (k =? k') eqn:A.
      + split.
        * intros [He|He]; [inversion He; reflexivity|]. specialize (Hlt _ He). simpl in Hlt. lia.
        * intros He. inversion He. left. f_equal. lia.
      + rewrite <- (IH Hs). split; [intros [He|He]; [inversion He; lia|assumption]|auto].
  Qed.
End KMap.

Arguments kput {V}. Arguments kdel {V}. Arguments kget {V}. Arguments ksorted {V}.
